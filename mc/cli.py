import argparse
import importlib
import json
import os
import shutil
import sys
import tempfile


def main():
    ap = argparse.ArgumentParser()
    ap.add_argument("pid")
    ap.add_argument("--tier", default=None)
    ap.add_argument("--replay", default=None)
    a = ap.parse_args()
    if a.tier:
        os.environ["VERIF_TIER"] = a.tier
    from . import build, core

    # private scratch directory (nothing under /tmp is needed by a registered command)
    scratch = os.path.join(build.CACHE, "tmp-%d" % os.getpid())
    os.makedirs(scratch, exist_ok=True)
    os.environ["VERIF_SCRATCH"] = scratch
    os.environ["TMPDIR"] = scratch
    tempfile.tempdir = scratch
    rc = 2
    try:
        build.bind()
        mod = importlib.import_module("mc.props." + a.pid.lower())
        if a.replay:
            case = json.load(open(a.replay))
            rc = mod.replay(case)
        else:
            rc = mod.main()
    finally:
        shutil.rmtree(scratch, ignore_errors=True)
    sys.exit(rc)


if __name__ == "__main__":
    main()
