"""Boring reference model of a sample table: ordered columns (values, unit string) + metadata."""
import copy

import numpy as np


class TModel:
    def __init__(self, cols, t_ref=None, poly_trend=1, n_offsets=0):
        # cols: ordered dict name -> (np.array, unit-string)
        self.cols = {k: (np.array(v[0], dtype=float), str(v[1])) for k, v in cols.items()}
        self.t_ref = t_ref
        self.poly_trend = poly_trend
        self.n_offsets = n_offsets

    def __len__(self):
        for v, _ in self.cols.values():
            return len(v)
        return 0

    def copy(self):
        return copy.deepcopy(self)

    def rows(self, idx):
        m = self.copy()
        m.cols = {k: (np.atleast_1d(v[idx]), u) for k, (v, u) in self.cols.items()}
        return m

    def select(self, names):
        m = self.copy()
        m.cols = {k: self.cols[k] for k in names}
        return m

    def concat(self, other):
        m = self.copy()
        m.cols = {k: (np.concatenate([v, other.cols[k][0]]), u) for k, (v, u) in self.cols.items()}
        return m

    def wrap_K(self):
        m = self.copy()
        K, ku = m.cols["K"]
        om, ou = m.cols["omega"]
        neg = K < 0
        full = 360.0 if ou == "deg" else 2 * np.pi
        om2 = om.copy()
        om2[neg] = np.mod(om[neg] + full / 2, full)
        m.cols["K"] = (np.abs(K), ku)
        m.cols["omega"] = (om2, ou)
        return m

    def key(self):
        return (
            tuple((k, u, tuple(np.round(v, 12).tolist())) for k, (v, u) in self.cols.items()),
            None if self.t_ref is None else round(float(self.t_ref), 9),
            self.poly_trend,
            self.n_offsets,
        )


def from_impl(s):
    """Read the observable state of a JokerSamples into a TModel."""
    cols = {}
    for name in s.par_names:
        col = s.tbl[name]
        unit = getattr(col, "unit", None)
        val = np.atleast_1d(np.array(getattr(col, "value", col), dtype=float))
        cols[name] = (val, _ustr(unit))
    tr = s.t_ref
    if tr is not None and not hasattr(tr, "tcb"):
        tr = float(tr)  # a bare number is a barycentric MJD (the same convention as RVData's float times)
        return TModel(cols, tr, s.poly_trend, s.n_offsets)
    return TModel(cols, None if tr is None else float(tr.tcb.mjd), s.poly_trend, s.n_offsets)


def _ustr(unit):
    import astropy.units as u

    if unit is None:
        return ""
    unit = u.Unit(unit)
    if unit == u.one:
        return ""
    return unit.to_string()


def diff(impl_model, model, rtol=0.0, atol=0.0, check_meta=True):
    """None if equal, else a description."""
    a, b = impl_model, model
    if list(a.cols) != list(b.cols):
        return f"column names/order differ: {list(a.cols)} vs {list(b.cols)}"
    for k in a.cols:
        (va, ua), (vb, ub) = a.cols[k], b.cols[k]
        if ua != ub:
            return f"unit of {k} differs: '{ua}' vs '{ub}'"
        if va.shape != vb.shape:
            return f"length of {k} differs: {va.shape} vs {vb.shape}"
        if rtol == 0 and atol == 0:
            if not np.array_equal(va, vb, equal_nan=True):
                return f"values of {k} differ: {va.tolist()} vs {vb.tolist()}"
        elif not np.allclose(va, vb, rtol=rtol, atol=atol, equal_nan=True):
            return f"values of {k} differ: {va.tolist()} vs {vb.tolist()}"
    if check_meta:
        if (a.t_ref is None) != (b.t_ref is None) or (a.t_ref is not None and abs(a.t_ref - b.t_ref) > 1e-9):
            return f"t_ref differs: {a.t_ref} vs {b.t_ref}"
        if a.poly_trend != b.poly_trend:
            return f"poly_trend differs: {a.poly_trend} vs {b.poly_trend}"
        if a.n_offsets != b.n_offsets:
            return f"n_offsets differs: {a.n_offsets} vs {b.n_offsets}"
    return None


def to_impl(m, numeric_t_ref=False):
    """Build a JokerSamples from a TModel.  numeric_t_ref: hand the reference epoch over as a plain BMJD number (documented
    input form) instead of a Time object."""
    import astropy.units as u
    from astropy.time import Time
    import thejoker as tj

    tr = None if m.t_ref is None else (float(m.t_ref) if numeric_t_ref else Time(m.t_ref, format="mjd", scale="tcb"))
    s = tj.JokerSamples(t_ref=tr, poly_trend=m.poly_trend, n_offsets=m.n_offsets)
    for k, (v, un) in m.cols.items():
        s[k] = np.array(v) * (u.Unit(un) if un else u.one)
    return s
