"""Reference Kepler solver (numpy only; independent of twobody and of thejoker)."""
import numpy as np


def ecc_anomaly(M, e):
    """Solve E - e sin E = M to machine precision (Newton with bisection safeguard)."""
    M = np.asarray(M, dtype=np.float64)
    Mw = np.mod(M, 2 * np.pi)
    e = np.broadcast_to(np.asarray(e, dtype=np.float64), Mw.shape)
    lo = np.zeros_like(Mw)
    hi = np.full_like(Mw, 2 * np.pi)
    E = Mw + e * np.sin(Mw)
    E = np.clip(E, lo, hi)
    for _ in range(200):
        f = E - e * np.sin(E) - Mw
        # maintain bracket
        hi = np.where(f > 0, E, hi)
        lo = np.where(f <= 0, E, lo)
        fp = 1 - e * np.cos(E)
        En = E - f / fp
        bad = ~((En > lo) & (En < hi))
        En = np.where(bad, 0.5 * (lo + hi), En)
        if np.all(np.abs(En - E) <= 4e-16 * np.maximum(1.0, np.abs(E))):
            E = En
            break
        E = En
    return E


def zfunc(t, P, e, omega, M0, t_ref):
    """Unit-amplitude RV curve  cos(omega+f) + e cos(omega)  at times t (days).

    Convention (same as the documented one): mean anomaly M = 2 pi (t - t_ref)/P - M0.
    Shapes: t (N,), parameters scalars or (T,) -> result (T, N) or (N,).
    """
    t = np.asarray(t, dtype=np.float64)
    P = np.asarray(P, dtype=np.float64)
    scalar = P.ndim == 0
    P, e, omega, M0 = [np.atleast_1d(np.asarray(x, dtype=np.float64))[:, None] for x in (P, e, omega, M0)]
    # reduce the phase in extended precision: (t - t_ref)/P can be ~1e3 cycles
    ph = ((t[None, :] - t_ref) / P).astype(np.longdouble)
    ph = ph - np.floor(ph)
    M = (2 * np.pi * ph).astype(np.float64) - M0
    E = ecc_anomaly(M, np.broadcast_to(e, M.shape))
    f = 2 * np.arctan2(np.sqrt(1 + e) * np.sin(E / 2), np.sqrt(1 - e) * np.cos(E / 2))
    z = np.cos(omega + f) + e * np.cos(omega)
    return z[0] if scalar else z
