"""Reference marginal likelihood / conditional posterior (numpy only).

States the property, does not imitate the kernel: B = diag(sigma^2+s^2) + M Lambda M^T is
factorised directly (no Woodbury).  `twins` switches on the exact alternative semantics of the
open known findings K1-K4 (DESIGN §6) so that a deviation can be attributed to them.
"""
import numpy as np

from . import kepler


def design(t, t_ref, labels, poly_trend, n_offsets, z):
    """Columns: K, v0, dv0_1..dv0_n, v1, v2, ...   z: (T,N) or (N,) -> M (T,N,L) or (N,L)."""
    t = np.asarray(t, dtype=float)
    labels = np.asarray(labels)
    z = np.asarray(z)
    single = z.ndim == 1
    zz = np.atleast_2d(z)
    T, N = zz.shape
    L = 1 + poly_trend + n_offsets
    M = np.zeros((T, N, L))
    M[:, :, 0] = zz
    M[:, :, 1] = 1.0
    for k in range(1, n_offsets + 1):
        M[:, :, 1 + k] = (labels == k).astype(float)[None, :]
    dt = t - t_ref
    for i in range(1, poly_trend):
        M[:, :, 1 + n_offsets + i] = (dt**i)[None, :]
    return M[0] if single else M


def var_K(P, e, sigma_K0, P0, max_K, cap=True):
    v = sigma_K0**2 * (np.asarray(P, dtype=float) / P0) ** (-2.0 / 3.0) / (1 - np.asarray(e, dtype=float) ** 2)
    if cap:
        v = np.minimum(v, max_K**2)
    return v


class Problem:
    """A fully declared problem in plain numbers (data unit for velocities, days for time).

    prior: dict with
       kind: 'default' | 'custom'
       default: sigma_K0, P0 (days), max_K, mu_K ; custom: mu_K, sigma_K
       mu: array (L,) prior means in kernel column order (entry 0 = mu_K)
       sig: array (L,) prior std (entry 0 ignored for 'default')
       P_prior_unit_in_days: numeric size of the period-prior's unit in days (1 for day, 365.25 for yr) - only
                             used by twin K3
    """

    def __init__(self, t, y, sig, t_ref, labels, poly_trend, n_offsets, prior):
        self.t = np.asarray(t, dtype=float)
        self.y = np.asarray(y, dtype=float)
        self.sig = np.asarray(sig, dtype=float)
        self.t_ref = float(t_ref)
        self.labels = np.asarray(labels, dtype=int)
        self.poly_trend = int(poly_trend)
        self.n_offsets = int(n_offsets)
        self.prior = prior
        self.L = 1 + self.poly_trend + self.n_offsets

    # -- pieces -----------------------------------------------------------------------------
    def M(self, theta):
        theta = np.atleast_2d(np.asarray(theta, dtype=float))
        z = kepler.zfunc(self.t, theta[:, 0], theta[:, 1], theta[:, 2], theta[:, 3], self.t_ref)
        return design(self.t, self.t_ref, self.labels, self.poly_trend, self.n_offsets, z)

    def mu_Lam(self, theta, twins=frozenset(), for_posterior=False):
        theta = np.atleast_2d(np.asarray(theta, dtype=float))
        T = theta.shape[0]
        pr = self.prior
        mu = np.tile(np.asarray(pr["mu"], dtype=float)[None, :], (T, 1))
        Lam = np.tile(np.asarray(pr["sig"], dtype=float)[None, :] ** 2, (T, 1))
        if pr["kind"] == "default":
            P0 = pr["P0"]
            if "K3" in twins:
                P0 = pr["P0"] / pr.get("P_prior_unit_in_days", 1.0)
            cap = not ("K2" in twins and for_posterior)
            Lam[:, 0] = var_K(theta[:, 0], theta[:, 1], pr["sigma_K0"], P0, pr["max_K"], cap=cap)
            mu[:, 0] = pr.get("mu_K", 0.0)
        else:
            Lam[:, 0] = pr["sigma_K"] ** 2
            mu[:, 0] = pr["mu_K"]
            if "K4" in twins and self.n_offsets >= 1:
                # finding K4: the kernel writes the custom K prior into slot n_offsets (an offset's / v0's slot) and
                # leaves K's own variance at 0; replay its assignment order exactly
                L = self.L
                no, pt = self.n_offsets, self.poly_trend
                m0 = np.zeros(L)
                l0 = np.zeros(L)
                decl_mu = np.asarray(pr["mu"], dtype=float)
                decl_var = np.asarray(pr["sig"], dtype=float) ** 2
                for i in range(no):
                    m0[2 + i], l0[2 + i] = decl_mu[2 + i], decl_var[2 + i]
                for i, nm in enumerate(["K"] + [f"v{k}" for k in range(pt)]):
                    if nm == "K":
                        m0[i + no], l0[i + no] = pr["mu_K"], pr["sigma_K"] ** 2
                    elif nm == "v0":
                        m0[i], l0[i] = decl_mu[1], decl_var[1]
                    else:
                        m0[i + no], l0[i + no] = decl_mu[1 + no + (i - 1)], decl_var[1 + no + (i - 1)]
                l0 = np.where(l0 == 0, 1e-300, l0)
                mu = np.tile(m0[None, :], (T, 1))
                Lam = np.tile(l0[None, :], (T, 1))
        return mu, Lam

    def var(self, theta, twins=frozenset()):
        theta = np.atleast_2d(np.asarray(theta, dtype=float))
        s = theta[:, 4]
        if "K1" in twins:
            s = np.zeros_like(s)
        return self.sig[None, :] ** 2 + s[:, None] ** 2

    # -- the marginal likelihood --------------------------------------------------------------
    def lnL(self, theta, twins=frozenset(), dtype=np.float64):
        theta = np.atleast_2d(np.asarray(theta, dtype=float))
        M = self.M(theta).astype(dtype)
        mu, Lam = self.mu_Lam(theta, twins)
        var = self.var(theta, twins).astype(dtype)
        mu = mu.astype(dtype)
        Lam = Lam.astype(dtype)
        T, N, L = M.shape
        B = np.einsum("tnl,tl,tml->tnm", M, Lam, M)
        B[:, np.arange(N), np.arange(N)] += var
        r = self.y.astype(dtype)[None, :] - np.einsum("tnl,tl->tn", M, mu)
        Lc = _chol(B)
        w = _fsolve(Lc, r)
        chi2 = np.sum(w * w, axis=1)
        logdet = 2 * np.sum(np.log(Lc[:, np.arange(N), np.arange(N)]), axis=1) + N * np.log(dtype(2) * dtype(np.pi))
        return (-0.5 * (chi2 + logdet))

    def posterior(self, theta, twins=frozenset()):
        """(a, A) of the conditional Normal over the linear parameters, column order K, v0, dv0_k, v1.."""
        theta = np.atleast_2d(np.asarray(theta, dtype=float))
        M = self.M(theta)
        mu, Lam = self.mu_Lam(theta, twins, for_posterior=True)
        var = self.var(theta, twins)
        Ainv = np.einsum("tnl,tn,tnk->tlk", M, 1.0 / var, M)
        L = M.shape[2]
        Ainv[:, np.arange(L), np.arange(L)] += 1.0 / Lam
        rhs = np.einsum("tnl,tn,n->tl", M, 1.0 / var, self.y) + mu / Lam
        A = np.linalg.inv(Ainv)
        a = np.einsum("tlk,tk->tl", A, rhs)
        return a, A, Ainv

    def ln_prior_linear(self, theta, x):
        """ln N(x | mu, Lambda) with the declared (capped) K variance."""
        mu, Lam = self.mu_Lam(theta)
        x = np.atleast_2d(x)
        return np.sum(-0.5 * (np.log(2 * np.pi * Lam) + (x - mu) ** 2 / Lam), axis=1)

    def kernel_route(self, theta, twins=frozenset(), perturb=0):
        """The kernel's *algebraic route* (Woodbury) in plain float64 numpy; used only to estimate how many
        digits that route can lose on an input (finding K5), never as an expected value."""
        theta = np.atleast_2d(np.asarray(theta, dtype=float))
        M = self.M(theta)
        mu, Lam = self.mu_Lam(theta, twins)
        var = self.var(theta, twins)
        if perturb:
            rs = np.random.RandomState(1234 + perturb)
            M = M * (1 + (rs.randint(-2, 3, size=M.shape)) * 2.2e-16)
            var = var * (1 + (rs.randint(-2, 3, size=var.shape)) * 2.2e-16)
            Lam = Lam * (1 + (rs.randint(-2, 3, size=Lam.shape)) * 2.2e-16)
        T, N, L = M.shape
        out = np.zeros(T)
        for k in range(T):
            Mk, iv = M[k], 1.0 / var[k]
            Ainv = np.diag(1.0 / Lam[k]) + (Mk.T * iv) @ Mk
            A = np.linalg.inv(Ainv)
            Binv = np.diag(iv) - (iv[:, None] * Mk) @ A @ (Mk.T * iv[None, :])
            B = np.diag(var[k]) + (Mk * Lam[k]) @ Mk.T
            r = Mk @ mu[k] - self.y
            chi2 = r @ Binv @ r
            import scipy.linalg as sl

            lu, _ = sl.lu_factor(B)
            ld = np.sum(np.log(2 * np.pi * np.abs(np.diag(lu))))
            out[k] = -0.5 * (chi2 + ld)
        return out


def _chol(B):
    """Batched Cholesky (works for float64 and longdouble)."""
    B = np.array(B)
    T, N, _ = B.shape
    Lc = np.zeros_like(B)
    for i in range(N):
        for j in range(i + 1):
            s = B[:, i, j] - np.sum(Lc[:, i, :j] * Lc[:, j, :j], axis=1)
            if i == j:
                Lc[:, i, j] = np.sqrt(s)
            else:
                Lc[:, i, j] = s / Lc[:, j, j]
    return Lc


def _fsolve(Lc, r):
    """Batched forward substitution L w = r."""
    T, N, _ = Lc.shape
    w = np.zeros_like(r)
    for i in range(N):
        w[:, i] = (r[:, i] - np.sum(Lc[:, i, :i] * w[:, :i], axis=1)) / Lc[:, i, i]
    return w
