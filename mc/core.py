"""Check bookkeeping: evidence, violations, known findings, replay files, sharding."""
import hashlib
import json
import multiprocessing as mp
import os
import sys
import time
import traceback

import numpy as np

VERIF = os.path.dirname(os.path.dirname(os.path.abspath(__file__)))
# scratch runs (triage of seeded changes against a scratch worktree) may divert their output; registered commands never set these
EVIDENCE_DIR = os.environ.get("VERIF_EVIDENCE_DIR") or os.path.join(VERIF, "evidence")
REPLAY_DIR = os.environ.get("VERIF_REPLAY_DIR") or os.path.join(VERIF, "replays")
KNOWN_FILE = os.path.join(VERIF, "known_findings.json")
NPROC = int(os.environ.get("VERIF_NPROC", "16"))


def jsonable(x):
    if isinstance(x, dict):
        return {str(k): jsonable(v) for k, v in x.items()}
    if isinstance(x, (list, tuple, set, frozenset)):
        return [jsonable(v) for v in x]
    if isinstance(x, np.ndarray):
        return jsonable(x.tolist())
    if isinstance(x, (np.floating, float)):
        x = float(x)
        if x != x:
            return "nan"
        if x in (float("inf"), float("-inf")):
            return "inf" if x > 0 else "-inf"
        return x
    if isinstance(x, (np.integer,)):
        return int(x)
    if isinstance(x, (np.bool_,)):
        return bool(x)
    if isinstance(x, (str, int, bool)) or x is None:
        return x
    if isinstance(x, bytes):
        return x.hex()
    return repr(x)


def okey(x):
    """Canonical outcome hash."""
    return hashlib.sha1(json.dumps(jsonable(x), sort_keys=True).encode()).hexdigest()[:16]


def load_known():
    try:
        with open(KNOWN_FILE) as f:
            return json.load(f)
    except OSError:
        return {"open": [], "fixed": []}


class Part:
    """Accumulator for one shard (picklable, mergeable)."""

    MAX_VIOL = 25

    def __init__(self):
        self.evals = 0
        self.outcomes = set()
        self.nontrivial = set()
        self.samples = []
        self.violations = []
        self.known = {}
        self.states = 0
        self.transitions = 0
        self.validated = 0
        self.extra = {}
        self.notes = []

    # -- recording ---------------------------------------------------------
    def record(self, case, outcome=None, nontrivial=True, sample=False):
        self.evals += 1
        k = okey(outcome if outcome is not None else case)
        self.outcomes.add(k)
        if nontrivial:
            self.nontrivial.add(okey(case))
        if (sample or nontrivial) and len(self.samples) < 2:
            self.samples.append(jsonable({"case": case, "outcome": outcome}))

    def violation(self, case, msg, expected=None, observed=None):
        if len(self.violations) < self.MAX_VIOL:
            self.violations.append(
                jsonable({"case": case, "msg": msg, "expected": expected, "observed": observed})
            )
        else:
            self.extra["violations_truncated"] = self.extra.get("violations_truncated", 0) + 1

    def known_finding(self, fid, case, msg):
        if fid not in self.known:
            self.known[fid] = {"count": 0, "first": jsonable({"case": case, "msg": msg})}
        self.known[fid]["count"] += 1

    def add(self, key, n=1):
        self.extra[key] = self.extra.get(key, 0) + n

    def merge(self, other):
        self.evals += other.evals
        self.outcomes |= other.outcomes
        self.nontrivial |= other.nontrivial
        for s in other.samples:
            if len(self.samples) < 6:
                self.samples.append(s)
        for v in other.violations:
            if len(self.violations) < self.MAX_VIOL:
                self.violations.append(v)
            else:
                self.extra["violations_truncated"] = self.extra.get("violations_truncated", 0) + 1
        for k, v in other.known.items():
            if k in self.known:
                self.known[k]["count"] += v["count"]
            else:
                self.known[k] = v
        self.states += other.states
        self.transitions += other.transitions
        self.validated += other.validated
        for k, v in other.extra.items():
            if isinstance(v, (int, float)) and not isinstance(v, bool):
                self.extra[k] = self.extra.get(k, 0) + v
            elif isinstance(v, list):
                self.extra[k] = (self.extra.get(k, []) + v)[:12]
            else:
                self.extra[k] = v
        self.notes = list(dict.fromkeys(self.notes + other.notes))


def guard(run_case, case, part):
    """Run one case; an exception escaping the check while it examines what the implementation returned is reported as
    a violation of that case (the clean tree is verified to be quiet, and every violation is re-run before it is reported)."""
    try:
        run_case(case, part)
    except (KeyboardInterrupt, SystemExit):
        raise
    except BaseException as e:  # noqa
        if type(e).__name__ == "HarnessDivergence":
            raise
        part.violation(case if isinstance(case, dict) else {"case": repr(case)[:500]},
                       f"examining this case failed with {type(e).__name__}: {str(e)[:300]} | {traceback.format_exc()[-500:]}")


def _run_shard(args):
    func, shard, kw = args
    try:
        from . import history

        history.prelude()  # unrelated earlier calls in this process (see mc/history.py)
        part = func(shard, **kw)
        return part
    except BaseException:  # harness failure inside a shard
        p = Part()
        p.extra["harness_errors"] = [traceback.format_exc()[-3000:]]
        return p


def parallel(func, shards, nproc=None, **kw):
    """Run func(shard, **kw) -> Part for every shard in forked workers; merge."""
    nproc = nproc or NPROC
    shards = list(shards)
    total = Part()
    if nproc <= 1 or len(shards) <= 1:
        for s in shards:
            total.merge(_run_shard((func, s, kw)))
        return total
    ctx = mp.get_context("fork")
    from concurrent.futures import ProcessPoolExecutor

    with ProcessPoolExecutor(max_workers=min(nproc, len(shards)), mp_context=ctx) as ex:
        for part in ex.map(_run_shard, [(func, s, kw) for s in shards]):
            total.merge(part)
    return total


def chunks(seq, n):
    """Split seq into at most n contiguous shards."""
    seq = list(seq)
    n = max(1, min(n, len(seq)))
    k, r = divmod(len(seq), n)
    out, i = [], 0
    for j in range(n):
        sz = k + (1 if j < r else 0)
        out.append(seq[i : i + sz])
        i += sz
    return [c for c in out if c]


def interleave(seq, n):
    """Split seq into at most n strided shards (balances cost when cost grows along seq)."""
    seq = list(seq)
    n = max(1, min(n, len(seq)))
    return [seq[i::n] for i in range(n)]


class Check:
    def __init__(self, pid, level, rule, exhaustive=True):
        self.pid = pid
        self.level = level
        self.rule = rule
        self.exhaustive = exhaustive
        self.tier = os.environ.get("VERIF_TIER", "quick")
        if self.tier not in ("quick", "thorough"):
            self.tier = "quick"
        try:
            self.seed = int(os.environ.get("VERIF_SEED", "0"))
        except ValueError:
            self.seed = 0
        self.t0 = time.time()
        self.total = Part()
        self.assumptions = []
        self.bounds = {}
        self.caps = []

    @property
    def quick(self):
        return self.tier == "quick"

    def merge(self, part):
        self.total.merge(part)

    def confirm(self, viols, run_case):
        """Determinism rule (DESIGN §8): a violation is reported only if re-running exactly that case reproduces a
        violation; a non-reproducing one is a harness error (exit 2), never a VIOLATION line."""
        confirmed, flaky = [], []
        for k, v in enumerate(viols):
            if run_case is None or k >= 5 or not isinstance(v.get("case"), dict) or v["case"].get("kind") in ("hashseed", "multipool"):
                confirmed.append(v)
                continue
            ok = False
            for attempt in range(2):
                p = Part()
                try:
                    run_case(v["case"], p)
                except BaseException as e:  # noqa
                    p.violations.append({"msg": "replay raised %r" % (e,)})
                if p.violations:
                    ok = True
                    break
            (confirmed if ok else flaky).append(v)
        return confirmed, flaky

    def finish(self, run_case=None):
        from . import build

        t = self.total
        known = load_known()
        open_ids = {k["id"]: k for k in known.get("open", []) if k.get("property") == self.pid or self.pid in k.get("properties", [])}
        rc = 0
        # harness errors: never a VIOLATION line, exit 2
        herr = t.extra.get("harness_errors")
        viols = list(t.violations)
        # a "known finding" reported by a check for an id that is not listed as open is a violation
        for fid, info in sorted(t.known.items()):
            if fid in open_ids:
                print(f"KNOWN-FINDING: property={self.pid} {fid}: {open_ids[fid]['what']} "
                      f"({info['count']} cases, first: {json.dumps(info["first"])[:160]})")
            else:
                viols.append({"case": info["first"].get("case"), "msg": f"unlisted finding {fid}: " + str(info["first"].get("msg"))})
        os.makedirs(REPLAY_DIR, exist_ok=True)
        printed = 0
        viols, flaky = self.confirm(viols, run_case)
        if flaky:
            t.extra.setdefault("harness_errors", []).append(
                "%d violation(s) did not reproduce when their case was re-run (nondeterminism not owned by the harness); first: %s"
                % (len(flaky), json.dumps(flaky[0])[:600]))
        for v in viols:
            h = okey(v)
            path = os.path.join(REPLAY_DIR, f"{self.pid}-{h}.json")
            with open(path, "w") as f:
                json.dump({"property": self.pid, "tier": self.tier, "seed": self.seed, **v}, f, indent=1)
            if printed < 10:
                print(f"VIOLATION property={self.pid} replay={path}")
                print("   ", (v.get("msg") or "")[:400])
                printed += 1
            rc = 1
        if t.extra.get("violations_truncated"):
            print(f"    (+{t.extra['violations_truncated']} further violations not written)")
        cov = {
            "evaluations": int(t.evals),
            "distinct_outcomes": len(t.outcomes),
            "distinct_nontrivial": len(t.nontrivial),
            "rule": self.rule,
            "samples": t.samples[:6],
            "exhaustive": bool(self.exhaustive and not self.caps),
            "bounds": self.bounds,
            "caps_hit": self.caps,
            "known_findings_seen": {k: v["count"] for k, v in t.known.items()},
        }
        if not cov["samples"]:
            # nothing was recorded as a sample (e.g. every case ended in a violation): show the first cases seen
            cov["samples"] = [jsonable({"case": v.get("case"), "outcome": "violation"}) for v in viols[:2]] or [{"note": "no case completed"}]
        if self.level == "model_checking":
            cov["states"] = int(t.states)
            cov["transitions"] = int(t.transitions)
            cov["traces_validated_against_impl"] = int(t.validated)
        for k, v in t.extra.items():
            if k not in ("harness_errors",):
                cov[k] = v
        ev = {
            "property_id": self.pid,
            "tier": self.tier,
            "seed": self.seed,
            "level": self.level,
            "coverage": cov,
            "assumptions": list(dict.fromkeys(self.assumptions + t.notes + build.NOTES)),
            "wall_s": round(time.time() - self.t0, 2),
            "violations": len(viols),
        }
        os.makedirs(EVIDENCE_DIR, exist_ok=True)
        path = os.path.join(EVIDENCE_DIR, f"{self.pid}.json")
        with open(path, "w") as f:
            json.dump(ev, f, indent=1)
        import shutil
        import subprocess

        vt = shutil.which("python3-vt")
        if vt and os.path.exists("/root/.vp/EVIDENCE.schema.json"):
            r = subprocess.run(
                [vt, os.path.join(VERIF, "mc", "validate_evidence.py"), "/root/.vp/EVIDENCE.schema.json", path],
                capture_output=True, text=True,
            )
            if r.returncode != 0:
                print("HARNESS-ERROR evidence does not validate:", r.stdout[-600:], r.stderr[-300:])
                rc = rc or 2
        if herr:
            print("HARNESS-ERROR in %d shard(s):" % len(herr))
            for h in herr[:3]:
                print(h)
            rc = rc or 2
        print(
            f"{self.pid} tier={self.tier} seed={self.seed} evaluations={t.evals} distinct_outcomes={len(t.outcomes)} "
            f"nontrivial={len(t.nontrivial)} states={t.states} transitions={t.transitions} "
            f"violations={len(viols)} wall={ev['wall_s']}s"
        )
        return rc


def seeded_jitter(seed, *key):
    """Deterministic number in [0,1) derived from (seed, key): the only 'randomness' in alphabets."""
    h = hashlib.sha256(repr((seed,) + key).encode()).digest()
    return int.from_bytes(h[:8], "big") / 2**64
