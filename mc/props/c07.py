"""C07 — physical results are invariant under the choice of units (E1, metamorphic)."""
import itertools

import numpy as np

from .. import core, seams
from .. import problems as pb
from ..numoracle import LnLOracle, PostOracle

PID = "C07"

BASE_CFG = {
    "default_trend2": dict(kind="default", poly_trend=2, n_offsets=0, sigma_K0=30.0, sigma_v=(60.0, 1.2, 0.03)),
    "custom_means": dict(kind="custom", poly_trend=1, n_offsets=0, K_custom=(2.0, 20.0), mu_v=(4.0, 0, 0), sigma_v=(50.0, 1.0, 0.03)),
    "default_offset": dict(kind="default", poly_trend=1, n_offsets=1, sigma_K0=300.0, sigma_v=(70.0, 1.0, 0.03), off_sig=(4.0, 6.0), off_mu=(0.5, 0.0)),
}
BASE_DATA = [dict(n=4, layout="short", err="hetero"), dict(n=6, layout="long", err="uniform"), dict(n=3, layout="repeat", err="large"),
             # precise data generated from theta row 5 of the grid: its marginal ln-likelihood is POSITIVE in km/s and negative in m/s
             dict(n=12, layout="short", err="small", y_from="row5")]


def theta24(seed):
    j = core.seeded_jitter(seed, "c07")
    rows = []
    for P in (1.3 + 0.1 * j, 41.7, 700.0):
        for e in (0.0, 0.6):
            for om, M0 in ((1.3, 0.5), (4.0, 5.5)):
                for s in (0.0, 0.8):
                    rows.append([P, e, om, M0, s])
    th = np.array(rows)
    th[:, 0] *= 1.0 + 1e-7 * np.arange(len(th))
    return th


def unit_assignments(quick):
    Ku = ["km/s", "m/s"]
    vu = ["km/s", "m/s"]
    vt = ["day", "yr"]
    Pu = ["day", "yr"] if quick else ["day", "yr", "h"]
    P0u = ["yr", "day"]
    du = ["km/s", "m/s"] if quick else ["km/s", "m/s", "cm/s"]
    lib = [(lp, la, ls) for lp in (["day", "yr"] if quick else ["day", "yr", "h"]) for la in ("rad", "deg") for ls in ("km/s", "m/s")]
    priors = list(itertools.product(Ku, vu, vt, Pu, P0u))
    return priors, du, lib


def run_twin(base_name, pri_units, dunit, libu, dshape, theta, seed, uplan=None):
    """evaluate one unit assignment; returns dict with lnL, accepted ids, (a, A) records [in km/s], returned columns [canonical units]"""
    import astropy.units as u
    import thejoker as tj

    Ku, vu, vt, Pu, P0u = pri_units
    kw = dict(BASE_CFG[base_name])
    prior, dec = pb.make_prior(K_unit=Ku, v_unit=vu, v_time_unit=vt, P_unit=Pu, P0_unit=P0u, cache=True, **kw)
    dsh = dict(dshape)
    if dsh.get("y_from") == "row5":
        dsh["y_from"] = [float(x) for x in theta[5, :4]]
    data, dd = pb.make_data(unit=dunit, seed=seed, n_surveys=kw["n_offsets"] + 1, **dsh)
    lib = pb.make_samples(theta, P_unit=libu[0], angle_unit=libu[1], s_unit=libu[2])
    out = dict(dd=dd, dec=dec)
    joker = tj.TheJoker(prior)
    out["lnL"] = np.array(joker.marginal_ln_likelihood(data, lib, in_memory=True))
    if uplan is not None:
        # the cache-file path converts the library columns itself (read_batch): same physical problem, same values
        import astropy.units as u

        out["lnL_file"] = np.array(joker.marginal_ln_likelihood(data, lib, n_batches=2))
        # ... and from a user file at ONE file name per worker that every twin overwrites with its own column units
        # (forced collision for anything keyed on the file name)
        import os

        path = os.path.join(seams.fresh_dir("c07"), "library-%d.hdf5" % os.getpid())
        lib.write(path, overwrite=True)
        out["lnL_userfile"] = np.array(joker.marginal_ln_likelihood(data, path))
        # ... and from a file built in two chunks: first half in the canonical column units, second half APPENDED in this
        # twin's column units. The append may be refused (then nothing is compared) - if it is accepted, the file must hold the
        # same physical library
        h = len(theta) // 2
        path2 = os.path.join(seams.fresh_dir("c07"), "chunks-%d.hdf5" % os.getpid())
        pb.make_samples(theta[:h]).write(path2, overwrite=True)
        try:
            pb.make_samples(theta[h:], P_unit=libu[0], angle_unit=libu[1], s_unit=libu[2]).write(path2, append=True)
            appended = True
        except Exception:
            appended = False
        if appended:
            out["lnL_chunks"] = np.array(joker.marginal_ln_likelihood(data, path2))
        # the unmarginalised likelihood of hand-built rows (library rows + fixed linear parameters given in the data's unit),
        # with the uncertainties handed over in ANOTHER unit than the velocities
        if kw["n_offsets"] == 0:
            uu = {"km/s": u.km / u.s, "m/s": u.m / u.s, "cm/s": u.cm / u.s}[dunit]
            eu = u.cm / u.s if dunit != "cm/s" else u.km / u.s
            data_e = tj.RVData(data.t, data.rv, data.rv_err.to(eu), t_ref=data.t_ref)
            hb = tj.JokerSamples(t_ref=data.t_ref, poly_trend=kw["poly_trend"], n_offsets=0)
            for nm in lib.par_names:
                hb[nm] = lib[nm]
            f_ = dd["factor"]
            hb["K"] = (5.0 + 0.25 * np.arange(len(theta))) * f_ * uu
            hb["v0"] = (1.0 - 0.125 * np.arange(len(theta))) * f_ * uu
            for i in range(1, kw["poly_trend"]):
                hb[f"v{i}"] = np.full(len(theta), 0.01 ** i) * f_ * uu / u.day**i
            out["lnunm"] = np.asarray(hb.ln_unmarginalized_likelihood(data_e), dtype=float)
            # the same data with the uncertainties quoted in another (equivalent) unit, built with and without the optional
            # cleaning pass (the data hold no unusable row, so clean=False describes the same observations)
            out["lnL_errunit"] = np.array(joker.marginal_ln_likelihood(data_e, lib, in_memory=True))
            data_nc = tj.RVData(data.t, data.rv, data.rv_err.to(eu), t_ref=data.t_ref, clean=False)
            out["lnL_errunit_noclean"] = np.array(joker.marginal_ln_likelihood(data_nc, lib, in_memory=True))
    if uplan is not None:
        # prior draws including the linear parameters (K cap, trend widths): the same seed must give physically equal rows
        # whatever units the prior was declared in (cached per prior)
        dk = (base_name, tuple(pri_units))
        if dk not in _DRAWS:
            ps = prior.sample(size=12, generate_linear=True, rng=np.random.default_rng(17))
            cols = {"P": np.atleast_1d(ps["P"].to_value(u.day)), "e": np.atleast_1d(np.asarray(ps["e"], dtype=float)), "K": np.atleast_1d(ps["K"].to_value(u.km / u.s))}
            for i in range(kw["poly_trend"]):
                cols[f"v{i}"] = np.atleast_1d(ps[f"v{i}"].to_value(u.km / u.s / u.day**i))
            for k in range(1, kw["n_offsets"] + 1):
                cols[f"dv0_{k}"] = np.atleast_1d(ps[f"dv0_{k}"].to_value(u.km / u.s))
            _DRAWS[dk] = cols
        out["prior_draws"] = _DRAWS[dk]
        rng = seams.ScriptedGenerator(9, uniform_fn=lambda size, k: uplan[: int(size)])
        j2 = tj.TheJoker(prior, rng=rng)
        res = j2.rejection_sample(data, lib, in_memory=True, n_linear_samples=1)
        P = np.atleast_1d(res["P"].to_value(u.day))
        out["acc"] = [int(np.argmin(np.abs(theta[:, 0] - p))) for p in P]
        f = dd["factor"]
        recs = [e for e in rng.log if e[0] == "mvn"]
        out["aA"] = [(r[1] / f, r[2] / f**2) for r in recs]
        names = ["K", "v0"] + [f"dv0_{k}" for k in range(1, kw["n_offsets"] + 1)] + [f"v{i}" for i in range(1, kw["poly_trend"])]
        cols = {}
        for nm in ["P", "e", "omega", "M0", "s"] + names:
            cu = {"P": u.day, "e": u.one, "omega": u.rad, "M0": u.rad, "s": u.km / u.s}.get(nm)
            if cu is None:
                cu = u.km / u.s / u.day ** (int(nm[1:]) if nm.startswith("v") else 0)
            cols[nm] = np.atleast_1d(res[nm].to_value(cu))
        out["cols"] = cols
    return out


_CANON = {}
_DRAWS = {}


def canonical(base_name, di, seed):
    key = (base_name, di, seed)
    if key not in _CANON:
        theta = theta24(seed)
        dshape = BASE_DATA[di]
        canon = run_twin(base_name, ("km/s", "km/s", "day", "day", "day"), "km/s", ("day", "rad", "km/s"), dshape, theta, seed)
        L0 = canon["lnL"]
        # scripted uniforms at least 20 % away from every acceptance ratio (round-off cannot flip a decision)
        r = np.exp(L0 - L0.max())
        uplan = np.where((np.arange(len(r)) % 2 == 0) | (r > 0.45), r * 0.5, np.minimum(r * 2.0, 0.99))
        uplan = np.where(r == 1.0, 0.5, uplan)
        canon = run_twin(base_name, ("km/s", "km/s", "day", "day", "day"), "km/s", ("day", "rad", "km/s"), dshape, theta, seed, uplan)
        _CANON[key] = (theta, canon, uplan)
    return _CANON[key]


def check_base(base_name, di, quick, seed, part, only_priors=None, only=None):
    theta, canon, uplan = canonical(base_name, di, seed)
    dshape = BASE_DATA[di]
    priors, dus, libs = unit_assignments(quick)
    L0 = canon["lnL"]
    N = len(canon["dd"]["t"])
    combos = [(p, d, l) for p in priors for d in dus for l in libs]
    if only_priors is not None:
        combos = [c for c in combos if c[0] in only_priors]
    if only is not None:
        combos = [c for c in combos if c == only]
    for pri_units, dunit, libu in combos:
        case = dict(kind="twin", base=base_name, data=di, prior_units=list(pri_units), data_unit=dunit, library_units=list(libu), seed=seed)
        part.evals += 1
        try:
            tw = run_twin(base_name, pri_units, dunit, libu, dshape, theta, seed, uplan)
        except Exception as e:
            part.violation(case, f"a unit-transformed twin of a valid problem raised {type(e).__name__}: {str(e)[:200]}")
            continue
        f = tw["dd"]["factor"]
        want = L0 - N * np.log(f)
        if not np.allclose(tw["lnL_userfile"], tw["lnL"], rtol=1e-9, atol=1e-9):
            part.violation(case, "a user file (same file name re-written by each twin in its own column units) gives other values than the in-memory path",
                           expected=tw["lnL"], observed=tw["lnL_userfile"])
            continue
        bad_draw = None
        for nm, v0_ in canon.get("prior_draws", {}).items():
            v_ = tw.get("prior_draws", {}).get(nm)
            # (float32 storage of converted constants inside pytensor: 1e-5 relative)
            if v_ is None or v_.shape != v0_.shape or not np.allclose(v_, v0_, rtol=2e-5, atol=1e-9):
                bad_draw = (nm, v0_, v_)
                break
        if bad_draw is not None:
            part.violation(dict(case, column=bad_draw[0]), "prior.sample(generate_linear=True) with an equal seed is not physically the same draw when the prior is "
                           "declared in other units", expected=bad_draw[1], observed=bad_draw[2])
            continue
        if "lnL_chunks" in tw and not np.allclose(tw["lnL_chunks"], tw["lnL"], rtol=1e-9, atol=1e-9):
            part.violation(case, "a library file extended by a chunk in these column units (append accepted) does not hold the same physical library",
                           expected=tw["lnL"], observed=tw["lnL_chunks"])
            continue
        if "lnunm" in tw and "lnunm" in canon and not np.allclose(tw["lnunm"], canon["lnunm"] - N * np.log(f), rtol=1e-9, atol=1e-7):
            part.violation(case, "ln_unmarginalized_likelihood (uncertainties given in another unit than the velocities) != canonical value - N ln(unit ratio)",
                           expected=canon["lnunm"] - N * np.log(f), observed=tw["lnunm"])
            continue
        hit = False
        for kk in ("lnL_errunit", "lnL_errunit_noclean"):
            if kk in tw and not np.allclose(tw[kk], tw["lnL"], rtol=1e-9, atol=1e-9, equal_nan=True):
                part.violation(case, "marginal ln-likelihood changes when the uncertainties are quoted in another equivalent unit than the velocities (%s)" % kk,
                               expected=tw["lnL"], observed=tw[kk])
                hit = True
                break
        if hit:
            continue
        if not np.allclose(tw["lnL_file"], tw["lnL"], rtol=1e-9, atol=1e-9):
            part.violation(case, "cache-file path and in-memory path disagree for a library stored in these column units",
                           expected=tw["lnL"], observed=tw["lnL_file"])
            continue
        dev = np.abs(tw["lnL"] - want)
        tol = 1e-8 * (1 + np.abs(want)) * 10
        bad = np.where(dev > tol)[0]
        nontriv = (pri_units != ("km/s", "km/s", "day", "day", "day")) or dunit != "km/s" or libu != ("day", "rad", "km/s")
        known_rows = set()
        if len(bad):
            # is the deviation a listed kernel finding of the twin's own configuration (K3: period prior not in days)?
            th_ref = theta.copy()
            th_ref[:, 4] *= f
            orc = LnLOracle(pb.ref_problem(tw["dd"], tw["dec"]), th_ref)
            verd = orc.classify(tw["lnL"])
            corc = LnLOracle(pb.ref_problem(canon["dd"], canon["dec"]), theta)
            cverd = corc.classify(L0)
            for i in bad:
                ids = set(verd[i][1]) if verd[i][0] == "known" else set()
                cids = set(cverd[i][1]) if cverd[i][0] == "known" else set()
                if verd[i][0] == "known" and (ids - cids):
                    for fid in sorted(ids - cids):
                        part.known_finding(fid, dict(case, theta=theta[i].tolist()), "twin deviates from the canonical problem by the finding's twin")
                    known_rows.add(int(i))
                else:
                    part.violation(dict(case, theta=theta[i].tolist()), "marginal ln-likelihood of the unit-transformed twin != canonical value - N ln(unit ratio)",
                                   expected=float(want[i]), observed=float(tw["lnL"][i]))
                    break
            else:
                pass
        if known_rows:
            # accepted set / posterior of a twin affected by a known finding are not comparable
            part.add("twins_affected_by_known_finding")
            continue
        if len(bad):
            continue
        if tw["acc"] != canon["acc"]:
            part.violation(case, "accepted set differs from the canonical problem for equal (scripted) uniforms", expected=canon["acc"], observed=tw["acc"])
            continue
        ok = True
        for k, ((a, A), (a0, A0)) in enumerate(zip(tw["aA"], canon["aA"])):
            sd = np.sqrt(np.abs(np.diag(A0)))
            if np.any(np.abs(a - a0) > 1e-6 * (np.abs(a0) + sd)) or np.any(np.abs(A - A0) > 1e-6 * np.sqrt(np.outer(np.diag(A0), np.diag(A0)))):
                part.violation(dict(case, row=canon["acc"][k]), "conditional posterior (a, A) of the twin is not physically equal to the canonical one",
                               expected=(a0, A0), observed=(a, A))
                ok = False
                break
        if not ok:
            continue
        for nm, v0 in canon["cols"].items():
            v = tw["cols"][nm]
            if nm in ("P", "e", "omega", "M0", "s"):
                if not np.allclose(v, v0, rtol=1e-9, atol=1e-12):
                    part.violation(dict(case, column=nm), "returned nonlinear column is not physically equal to the canonical one", expected=v0, observed=v)
                    ok = False
                    break
        if ok and nontriv:
            part.nontrivial.add(core.okey(case))
        part.outcomes.add(core.okey((base_name, di, tuple(np.round(tw["lnL"][:3], 6)))))
    if len(part.samples) < 2:
        part.samples.append(core.jsonable(dict(base=base_name, data=dshape, twins=len(combos), canonical_lnL=L0[:3])))


def shard(items, quick=True, seed=0):
    part = core.Part()
    for base_name, pri in items:
        for di in range(len(BASE_DATA)):
            check_base(base_name, di, quick, seed, part, only_priors=[pri])
    return part


def run_case(case, part):
    check_base(case["base"], case["data"], False, case.get("seed", 0), part,
               only=(tuple(case["prior_units"]), case["data_unit"], tuple(case["library_units"])))


def main():
    chk = core.Check(
        PID, "exploration",
        "3 base configurations (default K + quadratic-free trend, custom K with non-zero means, default K with cap and one offset) x 3 data "
        "shapes (+ one precise data set generated from the model, whose best ln-likelihood is positive in km/s) x 24 theta x the full product of unit assignments {K-prior unit, trend-prior velocity unit, trend time unit day/yr, "
        "period-prior unit day/yr/(h), P0 unit, data unit km/s / m/s / (cm/s), library columns P day/yr/(h), angles rad/deg, s km/s / m/s} "
        "(quick: 2-letter sub-alphabets, 512 twins per base problem; thorough: 1728): Delta lnL = -N ln(unit ratio), identical accepted "
        "set under scripted uniforms >= 20 % away from every ratio, physically equal (a, A) and returned columns. Non-trivial: a twin that "
        "differs from the canonical assignment and satisfies every relation.",
    )
    priors, dus, libs = unit_assignments(chk.quick)
    items = [(b, p) for b in BASE_CFG for p in priors]
    priors, dus, libs = unit_assignments(chk.quick)
    chk.bounds = {"base_problems": len(BASE_CFG) * len(BASE_DATA), "twins_per_base_problem": len(priors) * len(dus) * len(libs)}
    chk.merge(core.parallel(shard, core.interleave(items, core.NPROC * 2), quick=chk.quick, seed=chk.seed))
    chk.assumptions += ["astropy unit conversion is trusted", "the canonical twin's own values are validated against the closed form by C01"]
    return chk.finish(run_case)


def replay(doc):
    part = core.Part()
    run_case(doc["case"], part)
    for v in part.violations:
        print("REPRODUCED:", v["msg"], "\n expected:", v.get("expected"), "\n observed:", v.get("observed"))
    print("violations:", len(part.violations))
    return 1 if part.violations else 0
