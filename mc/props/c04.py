"""C04 — a sample row denotes one RV curve everywhere; Bayes identity holds (E1)."""
import numpy as np

from .. import core, seams
from .. import problems as pb
from ..numoracle import LnLOracle
from ..ref import marginal
from . import c01

PID = "C04"


def lin_names(cfg):
    return ["K", "v0"] + [f"dv0_{k}" for k in range(1, cfg["n_offsets"] + 1)] + [f"v{i}" for i in range(1, cfg["poly_trend"])]


def theta_rows(seed, sigbar):
    th = c01.theta_grid(True, seed, sigbar)
    th = th[th[:, 1] <= 0.99]
    th = th[::14].copy()
    # angles outside [0, 2pi) for some rows
    th[::3, 2] += 2 * np.pi
    th[1::3, 3] -= 2 * np.pi
    th[:, 0] *= 1.0 + 1e-7 * np.arange(len(th))
    return th


def data_star(dd, labels, x, n_offsets, unit, t_ref):
    """merged single RVData with the row's own survey offsets removed"""
    import astropy.units as u
    from astropy.time import Time
    import thejoker as tj

    f = dd["factor"]
    y = dd["y"] * f
    for k in range(1, n_offsets + 1):
        y = y - (labels == k) * x[1 + k]
    uu = u.km / u.s if unit == "km/s" else u.m / u.s
    return tj.RVData(Time(dd["t"], format="mjd", scale="tcb"), y * uu, dd["sig"] * f * uu, t_ref=Time(t_ref, format="mjd", scale="tcb"))


def check_rows(case0, cfg, sh, problem, dd, samples, theta_ref, X, mll_impl, mll_verd, mll_exact, part):
    """samples: JokerSamples with len(theta_ref) rows; X: linear parameters (rows, L) in data units."""
    import astropy.units as u
    from astropy.time import Time

    L = problem.L
    no = cfg["n_offsets"]
    tt = Time(dd["t"], format="mjd", scale="tcb")
    dunit = u.km / u.s if sh["unit"] == "km/s" else u.m / u.s
    # (1) reference epoch
    tr = samples.t_ref
    noref = sh["tref"] == "none" and no == 0
    if noref:
        # data built with t_ref=False: there is no reference epoch on either side (phases relative to BMJD 0). The rows must not
        # carry an invented epoch; reconstructing a curve may be refused (twobody needs an epoch), but if a curve comes back it
        # must be the sampler's.
        if tr is not None:
            part.violation(case0, "data have no reference epoch (t_ref=False) but the returned samples carry one", expected=None, observed=float(tr.tcb.mjd))
            return
    elif tr is None or abs(float(tr.tcb.mjd) - dd["t_ref"]) > 1e-9:
        part.violation(case0, "samples.t_ref is not the data's reference epoch", expected=dd["t_ref"], observed=None if tr is None else float(tr.tcb.mjd))
        return
    Mref = problem.M(theta_ref)  # (rows, N, L), relative to the data's t_ref
    a, A, Ainv = problem.posterior(theta_ref)
    lnprior = problem.ln_prior_linear(theta_ref, X)
    # orbit objects of ALL rows taken first and held while the others are requested (as `list(samples.orbits)` does): each one
    # must keep denoting its own row
    try:
        held = [samples.get_orbit(i) for i in range(len(theta_ref))]
    except Exception:
        held = None
    for i in range(len(theta_ref)):
        case = dict(case0, theta=theta_ref[i].tolist(), x=X[i].tolist())
        part.evals += 1
        x = X[i]
        want_curve = Mref[i] @ x
        # (2) the reconstructed orbit is the sampler's model
        try:
            # (the held object is evaluated while the most recently requested orbit is that of ANOTHER row)
            rv_held = held[i].radial_velocity(tt).to_value(dunit) if held is not None else None
            orb = samples.get_orbit(i)
            rv = orb.radial_velocity(tt).to_value(dunit)
            if held is not None:
                if not np.array_equal(rv_held, rv):
                    part.violation(case, "an orbit object obtained from get_orbit(i) changed when the orbits of other rows were requested afterwards",
                                   expected=rv, observed=rv_held)
                    return
        except Exception as e:
            if noref and isinstance(e, (TypeError, ValueError)):
                part.add("refused_without_reference_epoch")
                part.outcomes.add(core.okey(("refused", type(e).__name__)))
                continue
            part.violation(case, f"get_orbit / radial_velocity raised {type(e).__name__}: {e}")
            return
        off = np.zeros(len(dd["t"]))
        for k in range(1, no + 1):
            off = off + (dd["labels"] == k) * x[1 + k]
        scale = np.abs(x[0]) + np.max(np.abs(want_curve)) + 1e-12
        if np.max(np.abs(rv + off - want_curve)) > 1e-8 * scale:
            part.violation(case, "samples.get_orbit(i).radial_velocity(t) (+ the row's survey offset) is not the sampler's model M(theta) x",
                           expected=want_curve, observed=rv + off)
            return
        # (3) Bayes identity
        ds = data_star(dd, dd["labels"], x, no, sh["unit"], dd["t_ref"])
        try:
            lnp = float(samples[i : i + 1].ln_unmarginalized_likelihood(ds)[0])
        except Exception as e:
            part.violation(case, f"ln_unmarginalized_likelihood raised {type(e).__name__}: {e}")
            return
        # the orbit is defined relative to samples.t_ref: the same observations wrapped with ANOTHER reference epoch
        # (a held-out slice, follow-up data, ...) must give the same value
        ds2 = data_star(dd, dd["labels"], x, no, sh["unit"], dd["t_ref"] + 3.375)
        lnp2 = float(samples[i : i + 1].ln_unmarginalized_likelihood(ds2)[0])
        if abs(lnp2 - lnp) > 1e-8 * (1 + abs(lnp)):
            part.violation(case, "ln_unmarginalized_likelihood depends on the reference epoch of the data object instead of samples.t_ref",
                           expected=lnp, observed=lnp2)
            return
        d = x - a[i]
        sign, logdet = np.linalg.slogdet(2 * np.pi * A[i])
        lnpost = -0.5 * (d @ Ainv[i] @ d + logdet)
        rhs = lnp + lnprior[i] - lnpost
        tol = 1e-6 * (1 + abs(lnp) + abs(lnprior[i]) + abs(lnpost))
        if not np.isfinite(rhs) or np.linalg.cond(Ainv[i]) > 1e10:
            part.add("untrusted")
            continue
        v = mll_verd[i]
        if abs(mll_impl[i] - rhs) <= tol:
            part.add("rows_identity_pass")
            if i % 2 == 0:
                part.nontrivial.add(core.okey((cfg, sh, theta_ref[i].tolist(), x.tolist())))
        elif v[0] == "known" and abs(mll_exact[i] - rhs) <= tol:
            for fid in v[1]:
                part.known_finding(fid, case, "Bayes identity holds with the exact marginal; the kernel's value deviates by the finding's twin")
        elif v[0] in ("finite-only", "untrusted"):
            part.add("untrusted")
        else:
            part.violation(case, "marginal ln-likelihood != ln p(y|theta,x) + ln p(x|theta) - ln N(x|a,A): the reported likelihood, the reconstructed "
                           "orbit, the linear prior and the conditional posterior are not mutually consistent",
                           expected=float(rhs), observed=float(mll_impl[i]))
            return
        part.outcomes.add(core.okey((round(float(rhs), 5),)))


def check_curves_only(case0, cfg, sh, problem, dd, samples, theta_ref, X, part):
    """get_orbit(i).radial_velocity(t) (+offsets) must still be M(theta) x for the ORIGINAL (theta, x) of each row"""
    import astropy.units as u
    from astropy.time import Time

    no = cfg["n_offsets"]
    tt = Time(dd["t"], format="mjd", scale="tcb")
    dunit = u.km / u.s if sh["unit"] == "km/s" else u.m / u.s
    Mref = problem.M(theta_ref)
    for i in range(len(theta_ref)):
        x = X[i]
        want = Mref[i] @ x
        rv = samples.get_orbit(i).radial_velocity(tt).to_value(dunit)
        off = np.zeros(len(dd["t"]))
        for k in range(1, no + 1):
            off = off + (dd["labels"] == k) * x[1 + k]
        part.evals += 1
        if np.max(np.abs(rv + off - want)) > 1e-8 * (np.abs(x[0]) + np.max(np.abs(want)) + 1e-12):
            part.violation(dict(case0, theta=theta_ref[i].tolist(), x=x.tolist()),
                           "after wrap_K() on an object whose orbits had been built, get_orbit(i) no longer gives the row's RV curve", expected=want, observed=rv + off)
            return
        ds = data_star(dd, dd["labels"], x, no, sh["unit"], dd["t_ref"])
        lnp = float(samples[i : i + 1].ln_unmarginalized_likelihood(ds)[0])
        var = (dd["sig"] * dd["factor"]) ** 2 + theta_ref[i, 4] ** 2
        y = dd["y"] * dd["factor"]  # `want` = M(theta) x already contains the row's survey offsets
        want_lnp = float(np.sum(-0.5 * (np.log(2 * np.pi * var) + (y - want) ** 2 / var)))
        if abs(lnp - want_lnp) > 1e-7 * (1 + abs(want_lnp)):
            part.violation(dict(case0, theta=theta_ref[i].tolist(), x=x.tolist()),
                           "ln_unmarginalized_likelihood after wrap_K() is not ln N(y | M(theta) x, sigma^2 + s^2)", expected=want_lnp, observed=lnp)
            return


def check_cell(cfg, sh, seed, part, prior, dec, scratch):
    import astropy.units as u
    import thejoker as tj

    data, dd = pb.make_data(n=sh["n"], raw=sh.get("raw", "clean"), container=sh.get("container", "list"), sliced=sh.get("sliced", False), layout=sh["layout"], err=sh["err"], unit=sh["unit"], t_ref=pb.shape_tref(sh, cfg["n_offsets"]),
                            seed=seed, n_surveys=cfg["n_offsets"] + 1, t_ref_scale=("utc" if sh["n"] % 2 else "tcb"), interleave=(not sh["tref"]))
    problem = pb.ref_problem(dd, dec)
    theta = theta_rows(seed, float(np.mean(dd["sig"])))
    th_ref = theta.copy()
    th_ref[:, 4] *= dd["factor"]
    case0 = dict(kind="cell", cfg=cfg, shape=sh, seed=seed)
    dunit = u.km / u.s if sh["unit"] == "km/s" else u.m / u.s
    names = lin_names(cfg)
    lib = pb.make_samples(theta)
    lib["ln_prior"] = np.zeros(len(theta))
    rng = seams.ScriptedGenerator(3 + seed, uniform_fn=lambda size, k: np.zeros(int(size)))
    joker = tj.TheJoker(prior, rng=rng, tempfile_path=scratch)
    try:
        mll_all = np.array(joker.marginal_ln_likelihood(data, lib, in_memory=True))
        res = joker.rejection_sample(data, lib, in_memory=True, n_linear_samples=2, return_logprobs=True)
    except Exception as e:
        from ..numoracle import triggered

        if "K4" in triggered(problem, th_ref[0]):
            part.known_finding("K4", case0, f"rejection_sample raised {type(e).__name__} (NaN posterior)")
            res = None
        else:
            part.violation(case0, f"sampler raised on a valid input: {type(e).__name__}: {str(e)[:200]}")
            return
    orc = LnLOracle(problem, th_ref)
    verd_all = orc.classify(mll_all)
    exact_all = orc.ref()[0]
    # (i) rows returned by the samplers: plain rejection sampling, and the iterative sampler (several iterations; in memory for
    # one half of the cells, through the cache file for the other half)
    results = [("returned", res)]
    if res is not None and np.all(np.isfinite(mll_all)):  # (the iterative sampler refuses libraries with non-finite likelihoods: K6 / C14)
        try:
            inmem = (sh["n"] + cfg["poly_trend"]) % 2 == 0
            res_it = joker.iterative_rejection_sample(data, lib, n_requested_samples=len(theta), init_batch_size=3, in_memory=inmem, return_logprobs=True)
            results.append(("returned-iterative-" + ("inmem" if inmem else "file"), res_it))
        except Exception as e:
            part.violation(dict(case0, rows="returned-iterative"), f"iterative sampler raised on a valid input: {type(e).__name__}: {str(e)[:200]}")
            return
    if res is not None and np.all(np.isfinite(mll_all)) and (sh["n"] + cfg["n_offsets"]) % 2 == 1:
        # the cache-file route in randomised order: the reported ln_likelihood must still belong to the row it is attached to
        try:
            res_fr = joker.rejection_sample(data, lib, randomize_prior_order=True, return_logprobs=True, n_batches=2)
            results.append(("returned-file-random", res_fr))
        except Exception as e:
            part.violation(dict(case0, rows="returned-file-random"), f"rejection_sample (file route, random order) raised on a valid input: {type(e).__name__}: {str(e)[:200]}")
            return
    for rows_name, res in results:
      if res is not None and len(res) > 0:
        P = np.atleast_1d(res["P"].to_value(u.day))
        idx = [int(np.where(theta[:, 0] == p)[0][0]) if np.any(theta[:, 0] == p) else -1 for p in P]
        if any(j < 0 for j in idx):
            part.violation(case0, "a returned row's period is not a library period")
            return
        X = np.stack([res[nm].to_value(dunit / u.day ** (int(nm[1:]) if nm.startswith("v") else 0)) for nm in names], axis=1)
        if np.all(np.isfinite(X)):
            mll_rows = np.asarray(res["ln_likelihood"], dtype=float)
            if not np.array_equal(mll_rows, mll_all[idx]):
                part.violation(dict(case0, rows=rows_name), "ln_likelihood column of the returned rows != marginal_ln_likelihood of those rows", expected=mll_all[idx], observed=mll_rows)
                return
            check_rows(dict(case0, rows=rows_name), cfg, sh, problem, dd, res, th_ref[idx], X, mll_rows, [verd_all[j] for j in idx], exact_all[idx], part)
    # (ii) hand-built rows over a theta x x grid (K < 0, large trend terms)
    a, A, _ = problem.posterior(th_ref)
    sd = np.sqrt(np.abs(np.einsum("tii->ti", A)))
    for variant in range(3):
        X = np.where(np.isfinite(a), a, 0.0).copy()
        sdv = np.where(np.isfinite(sd), sd, 1.0)
        if variant == 0:
            X = X + 0.7 * sdv
        elif variant == 1:
            X[:, 0] = -np.abs(X[:, 0]) - 1.5 * sdv[:, 0] - 1.0  # K < 0
            X[:, 1:] -= 1.1 * sdv[:, 1:]
        else:
            X = X + 3.0 * sdv * ((-1) ** np.arange(X.shape[1]))[None, :]
        hb = tj.JokerSamples(t_ref=data.t_ref if not isinstance(data, (list, dict)) else tj.data_helpers.validate_prepare_data(data, cfg["poly_trend"], cfg["n_offsets"])[0].t_ref,
                             poly_trend=cfg["poly_trend"], n_offsets=cfg["n_offsets"])
        for c, (nm, un) in enumerate(zip(["P", "e", "omega", "M0", "s"], [u.day, u.one, u.rad, u.rad, dunit])):
            hb[nm] = th_ref[:, c] * un
        for c, nm in enumerate(names):
            hb[nm] = X[:, c] * (dunit / u.day ** (int(nm[1:]) if nm.startswith("v") else 0))
        check_rows(dict(case0, rows=f"hand-built-{variant}"), cfg, sh, problem, dd, hb, th_ref, X, mll_all, verd_all, exact_all, part)
        if sh["tref"] == "none" and cfg["n_offsets"] == 0:
            continue  # no reference epoch: curves may be refused; the scans below need them
        if variant == 0 and cfg["n_offsets"] == 0:
            # a table in which consecutive rows share P exactly but differ in (e, omega, M0) - a phase / omega scan at fixed
            # period: every row's value must be what that row gives alone (whole-table call vs one-row tables)
            scan = tj.JokerSamples(t_ref=hb.t_ref, poly_trend=cfg["poly_trend"], n_offsets=0)
            nrep = 3
            thr = np.repeat(th_ref[:4], nrep, axis=0)
            thr[:, 1] = np.clip(thr[:, 1] + 0.07 * np.tile(np.arange(nrep), 4), 0, 0.95)
            thr[:, 2] += 0.9 * np.tile(np.arange(nrep), 4)
            thr[:, 3] += 1.7 * np.tile(np.arange(nrep), 4)
            for c, (nm, un) in enumerate(zip(["P", "e", "omega", "M0", "s"], [u.day, u.one, u.rad, u.rad, dunit])):
                scan[nm] = thr[:, c] * un
            Xs = np.repeat(X[:4], nrep, axis=0)
            for c, nm in enumerate(names):
                scan[nm] = Xs[:, c] * (dunit / u.day ** (int(nm[1:]) if nm.startswith("v") else 0))
            ds = data_star(dd, dd["labels"], Xs[0], 0, sh["unit"], dd["t_ref"])
            whole = np.asarray(scan.ln_unmarginalized_likelihood(ds))
            single = np.array([float(scan[i : i + 1].ln_unmarginalized_likelihood(ds)[0]) for i in range(len(scan))])
            Mr = problem.M(thr)
            var = (dd["sig"] * dd["factor"]) ** 2
            want = np.array([np.sum(-0.5 * (np.log(2 * np.pi * (var + thr[i, 4] ** 2)) + (dd["y"] * dd["factor"] - Mr[i] @ Xs[i]) ** 2 / (var + thr[i, 4] ** 2)))
                             for i in range(len(scan))])
            part.evals += len(scan)
            if not np.allclose(whole, single, rtol=1e-10, atol=1e-8) or not np.allclose(whole, want, rtol=1e-7, atol=1e-6):
                part.violation(dict(case0, rows="fixed-period-scan", theta=thr.tolist()),
                               "ln_unmarginalized_likelihood of a row depends on the rows stored before it (table with consecutive rows sharing P)",
                               expected=want, observed=whole)
                return
        if variant == 1:
            # the SAME object (its orbits were just built) after wrap_K(): every row still denotes the same curve
            hb.wrap_K()
            X2 = X.copy()
            X2[:, 0] = np.abs(X2[:, 0])
            check_curves_only(dict(case0, rows="hand-built-1-after-wrap_K"), cfg, sh, problem, dd, hb, th_ref, X, part)
    if len(part.samples) < 2:
        part.samples.append(core.jsonable(dict(case0, n_theta=len(theta))))


def shard(items, quick=True, seed=0):
    part = core.Part()
    scratch = seams.fresh_dir("c04")
    for cfg, shapes in items:
        try:
            prior, dec = pb.make_prior(cache=False, **c01.prior_kwargs(cfg))
        except Exception as e:
            part.violation(dict(kind="config", cfg=cfg), f"building a valid prior raised {type(e).__name__}: {e}")
            continue
        for sh in shapes:
            if sh["n"] < cfg["n_offsets"] + 1 or sh["err"] == "tiny":
                continue
            check_cell(cfg, sh, seed, part, prior, dec, scratch)
    return part


def run_case(case, part):
    cfg, sh = case["cfg"], case["shape"]
    prior, dec = pb.make_prior(cache=False, **c01.prior_kwargs(cfg))
    check_cell(cfg, sh, case.get("seed", 0), part, prior, dec, seams.fresh_dir("c04r"))


def main():
    chk = core.Check(
        PID, "exploration",
        "prior configurations (quick: 24-configuration covering subset of poly_trend x offsets x K kind x means x units; thorough: all 216) x "
        "data shapes (well-conditioned error scales, both data units, explicit/default t_ref) x theta rows (incl. angles outside [0,2pi), "
        "s = 0 and > 0) x rows {every row returned by rejection_sample(return_logprobs=True, n_linear=2) under accept-all scripted "
        "uniforms; 3 hand-built linear-parameter vectors per theta incl. K<0 and 3-sigma trend terms}: (1) samples.t_ref, (2) "
        "get_orbit(i).radial_velocity(t) + survey offset vs the reference design matrix, (3) Bayes identity with the API's marginal and "
        "unmarginalised likelihoods and the reference prior / conditional posterior. Non-trivial: rows whose identity holds to 1e-6.",
    )
    cfgs = c01.configs(chk.quick)
    shapes = [s for s in c01.data_shapes(chk.quick) if s["err"] != "tiny"]
    if chk.quick:
        shapes = shapes[::2]
    else:
        shapes = shapes[::3]
    chk.bounds = {"configurations": len(cfgs), "data_shapes": len(shapes)}
    chk.merge(core.parallel(shard, core.interleave([(c, shapes) for c in cfgs], core.NPROC * 2), quick=chk.quick, seed=chk.seed))
    chk.assumptions += [
        "get_orbit is a function of time only, so the survey calibration offsets of the row are removed from the data before "
        "ln_unmarginalized_likelihood is called (the check supplies the calibration term)",
        "reference prior / posterior densities from the declared prior (capped K variance)",
    ]
    return chk.finish(run_case)


def replay(doc):
    part = core.Part()
    run_case(doc["case"], part)
    for v in part.violations:
        print("REPRODUCED:", v["msg"], "\n expected:", v.get("expected"), "\n observed:", v.get("observed"))
    print("violations:", len(part.violations))
    return 1 if part.violations else 0
