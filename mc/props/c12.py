"""C12 — sample files round-trip exactly; batch reads return the rows asked for (E3 + E1)."""
import hashlib
import itertools
import os
import shutil

import numpy as np

from .. import core, seams
from ..ref import tables as T

PID = "C12"
TREF = 57100.5


def table(name):
    base = dict(P=(np.array([2.5, 40.0]), "d"), e=(np.array([0.1, 0.5]), ""), omega=(np.array([1.0, 4.0]), "rad"),
                M0=(np.array([0.25, 3.0]), "rad"), s=(np.array([0.0, 1.5]), "km / s"))
    if name == "A":
        return T.TModel(base, TREF, 1, 0)
    if name == "B":
        return T.TModel({k: (np.array([v[0] * 3 + 0.125]), u) for k, (v, u) in base.items()}, TREF, 1, 0)
    if name == "C":
        c = dict(base)
        c["P"] = (np.array([0.01, 0.2]), "yr")
        return T.TModel(c, TREF, 1, 0)
    if name == "D":
        c = dict(base)
        c["ln_prior"] = (np.array([-3.5, -7.25]), "")
        return T.TModel(c, TREF, 1, 0)
    if name == "E":
        return T.TModel(base, TREF + 10, 1, 0)
    if name == "F":
        c = dict(base)
        c["K"] = (np.array([5.0, -2.0]), "km / s")
        c["v0"] = (np.array([10.0, 11.0]), "km / s")
        c["v1"] = (np.array([0.01, -0.02]), "km / (d s)")
        return T.TModel(c, TREF, 2, 0)
    if name == "G":
        return T.TModel(base, None, 1, 0)
    if name == "H":  # same columns, other order
        return T.TModel({k: base[k] for k in ["e", "P", "omega", "M0", "s"]}, TREF, 1, 0)
    if name == "J":  # fewer columns
        return T.TModel({k: base[k] for k in ["P", "e"]}, TREF, 1, 0)
    if name == "N":  # same schema, n_offsets differs
        return T.TModel(base, TREF, 1, 1)
    if name == "A32":  # the schema of A stored in single precision (the values it really holds)
        c = {k: (np.asarray(v, dtype=np.float32).astype(float), un) for k, (v, un) in base.items()}
        m32 = T.TModel(c, TREF, 1, 0)
        m32.dtype = "float32"
        return m32
    if name == "Z":  # reference epoch exactly BMJD 0 (simulated data counting time from zero)
        return T.TModel(base, 0.0, 1, 0)
    if name == "S":  # s in m/s
        c = dict(base)
        c["s"] = (np.array([0.0, 1500.0]), "m / s")
        return T.TModel(c, TREF, 1, 0)
    raise KeyError(name)


TABLES = ["A", "B", "C", "D", "E", "F", "G", "H", "J", "N", "S", "Z", "A32"]
MODES = ["plain", "overwrite", "append", "append_overwrite"]


def _impl(m):
    """JokerSamples of a table model, in the storage precision the model declares"""
    s_ = T.to_impl(m)
    if getattr(m, "dtype", "float64") == "float32":
        import astropy.units as u

        for k in list(m.cols):
            col = s_[k]
            unit = getattr(col, "unit", None)
            s_[k] = u.Quantity(np.asarray(getattr(col, "value", col), dtype=np.float32), unit if unit is not None else u.one, dtype=np.float32)
    return s_


def _norm(m):
    import astropy.units as u

    m = m.copy()
    m.cols = {k: (v, T._ustr(u.Unit(un)) if un else "") for k, (v, un) in m.cols.items()}
    return m


def sha(path):
    if not os.path.exists(path):
        return None
    with open(path, "rb") as f:
        return hashlib.sha256(f.read()).hexdigest()


def append_verdict(cur, new):
    """'accept' | 'refuse' | 'either' for appending table `new` to a file holding `cur`."""
    if cur is None:
        return "accept"
    if list(cur.cols) != list(new.cols):
        return "refuse"
    if getattr(cur, "dtype", "float64") != getattr(new, "dtype", "float64"):
        return "refuse"  # another storage precision is another table layout (nothing may be rounded silently)
    for k in cur.cols:
        if cur.cols[k][1] != new.cols[k][1]:
            return "refuse"
    if cur.poly_trend != new.poly_trend or cur.n_offsets != new.n_offsets:
        return "refuse"
    if (cur.t_ref is None) != (new.t_ref is None):
        return "either"
    if cur.t_ref is not None and abs(cur.t_ref - new.t_ref) > 1e-9:
        return "refuse"
    return "accept"


def read_impl(path, route="name"):
    import thejoker as tj

    if not os.path.exists(path):
        return None
    if route == "h5file":
        # documented alternative: an open h5py.File instead of a file name
        import h5py

        with h5py.File(path, "r") as f:
            return T.from_impl(tj.JokerSamples.read(f))
    return T.from_impl(tj.JokerSamples.read(path))


def apply_op(path, model, op):
    """Apply op to the real file and to the model.  Returns (new_model, error-message-or-None)."""
    import thejoker as tj

    if op[0] == "batch":
        if model is None:
            return model, None
        import astropy.units as u
        from thejoker.utils import read_batch

        cols = [c for c in ("P", "s", "e", "omega") if c in model.cols]
        want_units = {"P": u.day, "s": u.km / u.s, "omega": u.rad}
        n = len(model)
        try:
            out1 = np.asarray(read_batch(path, cols, (0, n), units=want_units))
            out2 = np.asarray(read_batch(path, cols, np.arange(n)[::-1].copy(), units=want_units))
        except Exception as e:
            return model, f"read_batch raised {type(e).__name__}: {e}"
        want = np.zeros((n, len(cols)))
        for j, c in enumerate(cols):
            v, un = model.cols[c]
            f = (u.Unit(un) if un else u.one).to(want_units[c]) if c in want_units else 1.0
            want[:, j] = v * f
        if out1.shape != want.shape or not np.allclose(out1, want, rtol=1e-13, atol=0):
            return model, f"read_batch(range) does not return the file's rows in the requested units: {out1.tolist()} vs {want.tolist()}"
        if out2.shape != want.shape or not np.allclose(out2, want[::-1], rtol=1e-13, atol=0):
            return model, f"read_batch(index array) does not return the file's rows in the requested units: {out2.tolist()} vs {want[::-1].tolist()}"
        # ALL columns of the file, requested in another order than the file's own (reversed; rotated by one)
        allc = list(model.cols)
        for colsx in (allc[::-1], allc[1:] + allc[:1]):
            wantx = np.zeros((n, len(colsx)))
            for j, c in enumerate(colsx):
                v, un = model.cols[c]
                f = (u.Unit(un) if un else u.one).to(want_units[c]) if c in want_units else 1.0
                wantx[:, j] = v * f
            try:
                o1 = np.asarray(read_batch(path, colsx, (0, n), units=want_units))
                o2 = np.asarray(read_batch(path, colsx, slice(0, n), units=want_units))
                o3 = np.asarray(read_batch(path, colsx, np.arange(n)[::-1].copy(), units=want_units))
            except Exception as e:
                return model, f"read_batch of all columns {colsx} raised {type(e).__name__}: {e}"
            for what, o, w in (("(start, stop)", o1, wantx), ("slice", o2, wantx), ("index array", o3, wantx[::-1])):
                if o.shape != w.shape or not np.allclose(o, w, rtol=1e-13, atol=0):
                    return model, f"read_batch({what}) of all columns in the order {colsx} does not return them in that order: {o.tolist()} vs {w.tolist()}"
        return model, None
    if op[0] == "read":
        try:
            got = read_impl(path, op[1] if len(op) > 1 else "name")
        except Exception as e:
            if model is None:
                return model, None
            return model, f"read raised {type(e).__name__}: {e}"
        if model is None:
            return model, (None if got is None else "read of a missing file returned data")
        d = T.diff(got, model)
        return model, ("read: " + d) if d else None
    # a second sample table stored in a group of the SAME file (the documented "one file, several stars" use): append and
    # append+overwrite act on their own dataset only, so it must survive them whether they are accepted or refused
    mode = op[2]
    side = None
    if model is not None and mode in ("append", "append_overwrite") and os.path.exists(path):
        import h5py

        side = _norm(table("B"))
        with h5py.File(path, "a") as f:
            T.to_impl(side).write(f.require_group("other/2M00"))
    new_model, err = _write_op(path, model, op)
    if side is not None and os.path.exists(path):
        import h5py

        msg = None
        try:
            with h5py.File(path, "a") as f:
                if "other/2M00" not in f:
                    msg = "gone"
                else:
                    msg = T.diff(T.from_impl(tj.JokerSamples.read(f["other/2M00"])), side)
                    del f["other"]
        except Exception as e:
            msg = f"unreadable ({type(e).__name__}: {e})"
        if msg and err is None:
            err = f"{mode} write of {op[1]} damaged another sample table stored in a group of the same file: {msg}"
    elif side is not None and err is None:
        err = f"{mode} write of {op[1]} removed the file that also held another sample table"
    return new_model, err


def _write_op(path, model, op):
    import thejoker as tj

    tname, mode = op[1], op[2]
    route = op[3] if len(op) > 3 else "name"
    new = _norm(table(tname))
    s = _impl(new)
    kw = dict(overwrite=(mode in ("overwrite", "append_overwrite")), append=(mode in ("append", "append_overwrite")))
    if route == "h5file":
        # documented alternative: the output is an open h5py.File. Opening / closing a file may touch its bytes, so "unaltered"
        # is judged on what the file reads back as
        import h5py

        def logical(p):
            try:
                m0 = read_impl(p)
                return None if m0 is None else m0.key()
            except Exception as e:
                return ("unreadable", type(e).__name__)

        before = logical(path) if model is not None else None
        try:
            with h5py.File(path, "a") as f:
                s.write(f, **kw)
            raised = None
        except Exception as e:
            raised = e
        after = logical(path) if (model is not None or raised is None) else None
        if raised is not None and model is None and os.path.exists(path):
            os.unlink(path)  # an empty container created by the harness itself
    else:
        before = sha(path)
        try:
            s.write(path, **kw)
            raised = None
        except Exception as e:
            raised = e
        after = sha(path)
    if route == "h5file" and mode == "overwrite" and model is not None:
        # overwrite=True is documented for file NAMES ("overwrite the existing file"); with an open file either a refusal
        # (file unaltered) or the replacement of the table is acceptable
        verdict, result = "either_replace", new
    elif mode in ("overwrite", "append_overwrite"):
        # append=True together with overwrite=True is documented as "only the dataset is replaced"
        verdict, result = "accept", new
    elif mode == "plain":
        if model is None:
            verdict, result = "accept", new
        else:
            verdict, result = "refuse", model  # documented: File exists
    else:
        verdict = append_verdict(model, new)
        result = new if model is None else (model.concat(new) if verdict != "refuse" else model)
        if verdict == "either":
            # metadata of the merged file: the property does not fix it; take what the file reports for t_ref
            pass
    if verdict == "either_replace":
        if raised is not None:
            verdict, result = "refuse", model
        else:
            verdict = "accept"
    if raised is not None:
        if verdict == "accept":
            return model, f"{mode} write of {tname} refused: {type(raised).__name__}: {raised}"
        if before != after:
            return model, f"refused {mode} write of {tname} altered the file"
        return model, None
    # accepted
    if verdict == "refuse":
        return model, f"incompatible {mode} write of {tname} was accepted (file now differs: {before != after})"
    try:
        got = read_impl(path)
    except Exception as e:
        return model, f"file unreadable after {mode} write of {tname}: {type(e).__name__}: {e}"
    if verdict == "either":
        result = result.copy()
        result.t_ref = got.t_ref
    d = T.diff(got, result)
    if d:
        return result, f"after {mode} write of {tname}: " + d
    return result, None


_WORKLOG = []  # (parent history, op) applied so far at this process's work path


def expand(args):
    """worker: expand one state (file + model + history) by every operation."""
    (sfile, model, hist, scratch, wid) = args
    part = core.Part()
    out = []
    ops = [("read",), ("batch",)] + [("write", t, m) for t in TABLES for m in MODES]
    # the same operations through an open h5py.File (documented alternative to a file name), on a sub-alphabet of tables
    ops += [("read", "h5file")] + [("write", t, m, "h5file") for t in ("A", "B", "C", "F") for m in MODES]
    for oi, op in enumerate(ops):
        # ONE path per worker process, reused for every state and operation: anything keyed on the file name
        # (a cache) sees the same name with different contents - forced collisions
        path = os.path.join(scratch, f"work-{os.getpid()}.hdf5")
        if os.path.exists(path):
            os.unlink(path)
        if sfile is not None:
            shutil.copyfile(sfile, path)
        new_model, err = apply_op(path, model, op)
        _WORKLOG.append((hist, list(op)))
        part.transitions += 1
        h = hist + [list(op)]
        part.record(dict(history=h), outcome=(None if new_model is None else new_model.key(), err is None),
                    nontrivial=(op[0] == "write" and op[2] == "append" and model is not None))
        if err:
            # worklog: everything applied before at the same work path (needed to reproduce name-keyed hidden state)
            part.violation(dict(kind="history", history=h, worklog=[[a, b] for a, b in _WORKLOG[:-1]]), err)
            if os.path.exists(path):
                os.unlink(path)
            continue
        key = None if new_model is None else new_model.key()
        keep = os.path.join(scratch, f"s-L{len(hist)}-{wid}-{os.getpid()}-{oi}.hdf5")  # unique per BFS level: a later level must not overwrite a state file still waiting in the frontier
        if os.path.exists(path):
            os.replace(path, keep)
            out.append((key, keep, new_model, h))
        else:
            out.append((key, None, new_model, h))
    return part, out


def _rebuild(hist, path):
    if os.path.exists(path):
        os.unlink(path)
    model = None
    for op in hist:
        model, err = apply_op(path, model, tuple(op))
    return model


def replay_history(hist, part, worklog=None):
    scratch = seams.fresh_dir("c12r")
    path = os.path.join(scratch, f"replay-{os.getpid()}.hdf5")
    tmp = os.path.join(scratch, f"replay-state-{os.getpid()}.hdf5")
    if worklog:
        # re-apply everything the worker had applied at its single work path before the failing transition
        for parent, op in list(worklog) + [[hist[:-1], hist[-1]]]:
            model = _rebuild(parent, tmp)
            if os.path.exists(path):
                os.unlink(path)
            if os.path.exists(tmp):
                shutil.copyfile(tmp, path)
            model, err = apply_op(path, model, tuple(op))
        if err:
            part.violation(dict(kind="history", history=hist), err)
        for f in (path, tmp):
            if os.path.exists(f):
                os.unlink(f)
        return
    if os.path.exists(path):
        os.unlink(path)
    model = None
    for i, op in enumerate(hist):
        model, err = apply_op(path, model, tuple(op))
        if err:
            part.violation(dict(kind="history", history=hist[: i + 1]), err)
            break
    if os.path.exists(path):
        os.unlink(path)


def bfs(chk, depth):
    import multiprocessing as mp
    from concurrent.futures import ProcessPoolExecutor

    scratch = seams.fresh_dir("c12")
    seen = {None: (None, None, [])}
    frontier = [(None, None, [])]
    total = core.Part()
    total.states = 1
    ctx = mp.get_context("fork")
    with ProcessPoolExecutor(max_workers=core.NPROC, mp_context=ctx) as ex:
        for level in range(depth):
            jobs = [(sf, m, h, scratch, i) for i, (sf, m, h) in enumerate(frontier)]
            nxt = []
            for part, out in ex.map(expand, jobs):
                total.merge(part)
                for key, f, m, h in out:
                    if key in seen:
                        # differential oracle: the same model state reached two ways must read back identically
                        if f is not None:
                            os.unlink(f)
                        continue
                    seen[key] = (f, m, h)
                    nxt.append((f, m, h))
            frontier = nxt
            total.states = len(seen)
            if not frontier:
                break
    total.extra["bfs_depth_completed"] = depth
    total.extra["frontier_left"] = len(frontier)
    shutil.rmtree(scratch, ignore_errors=True)
    return total


# ------------------------------- FITS -----------------------------------------------------------
def check_fits(case, part):
    import thejoker as tj

    scratch = seams.fresh_dir("c12f")
    path = os.path.join(scratch, f"f-{os.getpid()}.fits")
    if os.path.exists(path):
        os.unlink(path)
    hist = case["history"]
    model = None
    for op in hist:
        m = _norm(table(op[0]))
        s = T.to_impl(m)
        if case.get("epoch_scale") and m.t_ref is not None:
            # the reference epoch handed over on another time scale than the internal barycentric one
            from astropy.time import Time as _T

            tr_ = _T(m.t_ref, format="mjd", scale=case["epoch_scale"])
            s2 = tj.JokerSamples(t_ref=tr_, poly_trend=m.poly_trend, n_offsets=m.n_offsets)
            for k_ in s.par_names:
                s2[k_] = s[k_]
            s = s2
            m = m.copy()
            m.t_ref = float(tr_.tcb.mjd)
        try:
            s.write(path, overwrite=op[1])
            ok = True
        except Exception as e:
            ok = False
            if model is None or op[1]:
                part.violation(case, f"FITS write refused: {type(e).__name__}: {e}")
                return
        if ok:
            if model is not None and not op[1]:
                part.violation(case, "FITS write without overwrite replaced an existing file")
                return
            model = m
        got = T.from_impl(tj.JokerSamples.read(path))
        d = T.diff(got, model)
        if d:
            part.violation(case, "FITS round trip: " + d)
            return
    part.record(case, outcome=model.key(), nontrivial=len(hist) > 1)
    os.unlink(path)


# ------------------------------- batch reads ----------------------------------------------------
_LIBS = {}


def lib(N):
    if N not in _LIBS:
        import astropy.units as u
        import thejoker as tj

        d = seams.fresh_dir("c12b")
        path = os.path.join(d, f"lib{N}-{os.getpid()}.hdf5")
        i = np.arange(N, dtype=float)
        cols = dict(P=((2.0 + i) * 1.25, "d"), e=((i + 1) / 16.0, ""), omega=(0.5 + i, "rad"), M0=(0.25 * (i + 1), "rad"),
                    s=(0.125 * i, "km / s"), ln_prior=(-1.0 - i, ""))
        m = _norm(T.TModel(cols, TREF, 1, 0))
        T.to_impl(m).write(path, overwrite=True)
        _LIBS[N] = (path, m)
    return _LIBS[N]


def check_batch(case, part):
    import astropy.units as u
    from thejoker.utils import read_batch

    path, m = lib(case["N"])
    N = case["N"]
    cols = case["cols"]
    units = None
    if case["units"]:
        units = {k: u.Unit(v) for k, v in case["units"].items()}
    sel = case["sel"]
    rng = None
    if sel[0] == "tuple":
        arg = tuple(x for x in sel[1:] if x != "omit")
        rows = list(range(N))[slice(*arg)]
    elif sel[0] == "slice":
        arg = slice(sel[1], sel[2], sel[3])
        rows = list(range(N))[arg]
    elif sel[0] == "idx":
        arg = np.array(sel[1:], dtype=np.int64)
        rows = list(sel[1:])
    else:  # random read of size k with a scripted choice
        k = sel[1]
        perm = list(sel[2])
        rng = seams.ScriptedGenerator(0, choice_fn=lambda a, size, replace: perm[:size])
        arg = int(k)
        rows = perm[:k]
    try:
        out = read_batch(path, cols, arg, units=units, rng=rng)
    except Exception as e:
        part.violation(case, f"read_batch raised {type(e).__name__}: {e}")
        return
    want = np.zeros((len(rows), len(cols)))
    for j, c in enumerate(cols):
        v, un = m.cols[c]
        f = 1.0
        if units and c in units:
            f = (u.Unit(un) if un else u.one).to(units[c])
        want[:, j] = v[rows] * f if len(rows) else []
    out = np.asarray(out)
    part.record(case, outcome=(tuple(rows), tuple(cols), bool(units)), nontrivial=len(rows) > 1 and rows != sorted(set(rows)) or bool(units))
    if out.shape != want.shape:
        part.violation(case, "read_batch returned the wrong shape", expected=want.shape, observed=out.shape)
        return
    if not np.allclose(out, want, rtol=1e-14, atol=0):
        part.violation(case, "read_batch did not return exactly the requested rows/columns/units", expected=want, observed=out)
        return
    if sel[0] == "random":
        lg = [e for e in rng.log if e[0] == "choice"]
        if len(lg) != 1 or lg[0][3] is not False or lg[0][1] != N or lg[0][2] != sel[1]:
            part.violation(case, "random read did not draw `size` distinct rows (replace=False) out of the table length from the given generator", observed=lg)


def run_case(case, part):
    if case["kind"] == "history":
        replay_history(case["history"], part, case.get("worklog"))
    elif case["kind"] == "fits":
        check_fits(case, part)
    else:
        check_batch(case, part)


def shard(cases):
    part = core.Part()
    for c in cases:
        core.guard(run_case, c, part)
    return part


def build_batch_cases(quick):
    cases = []
    # large files: strided ranges spanning more than 65536 rows (block-wise readers), strides that do not divide a power of two
    NB = 140003
    for sel in (["slice", 0, None, 3], ["slice", 5, 139999, 7], ["tuple", 1, NB, 10], ["slice", 70000, None, 1], ["slice", 0, None, 65537], ["tuple", 0, 131072, 5]):
        cases.append(dict(kind="batch", N=NB, sel=sel, cols=["P", "s"], units={"P": "yr"}))
    allcols = ["P", "e", "omega", "M0", "s"]
    colsets = [list(p) for r in (1, 2, 3) for p in itertools.permutations(allcols, r)]
    unitsets = [None, {"P": "yr"}, {"s": "m / s"}, {"P": "h", "s": "m / s", "omega": "deg"}]
    main_cols = [["P", "e", "omega", "M0", "s"], ["s", "P"], ["ln_prior", "M0"]]
    for N in ((1, 3, 5) if quick else (1, 3, 6)):
        sels = []
        for a in range(N + 1):
            for b in range(N + 1):
                for st in ("omit", None, 1, 2):
                    sels.append(["tuple", a, b, st])
                    if st != "omit":
                        sels.append(["slice", a, b, st])
        sels.append(["slice", None, None, None])
        # numpy-style negative entries in an index array
        sels.append(["idx", -1])
        if N > 1:
            sels.append(["idx", 0, -2])
            sels.append(["idx", -N, N - 1, -1])
        sels.append(["slice", None, 2, None])
        sels.append(["slice", 1, None, None])
        for r in (1, 2, 3):
            for p in itertools.product(range(N), repeat=r):
                sels.append(["idx"] + list(p))
        for k in range(1, N + 1):
            for perm in (list(range(N))[::-1], [(2 * i + 1) % N for i in range(N)] if N % 2 else list(range(N))):
                if sorted(perm) == list(range(N)):
                    sels.append(["random", k, perm])
        for sel in sels:
            for cols in main_cols:
                for us in unitsets:
                    cases.append(dict(kind="batch", N=N, sel=sel, cols=cols, units=us))
        few = [s for s in sels if s[0] in ("idx", "random")][-4:] + [["tuple", 0, N, "omit"], ["slice", 0, N, 2]]
        for sel in few:
            for cols in colsets:
                for us in unitsets:
                    cases.append(dict(kind="batch", N=N, sel=sel, cols=cols, units=us))
    return cases


def main():
    chk = core.Check(
        PID, "model_checking",
        "BFS over write/overwrite/append/read/batch-read histories (13 tables x 4 write modes {plain, overwrite, append, append+overwrite} + read + read_batch per state) on a real HDF5 "
        "file per state (applied at one re-used path per worker, so file-name-keyed state collides), "
        "deduplicated on the reference file model (asserted equal to the file content in every state); FITS write/overwrite/read "
        "histories of depth<=2; read_batch: every (start,stop,step) tuple and slice, every index array of length<=3 (repeats, any "
        "order), scripted random reads x column subsets x unit requests. Non-trivial: an append onto an existing table (histories); "
        "more than one row in non-sorted order or a unit conversion (batch reads).",
    )
    depth = 3 if chk.quick else 8
    chk.bounds = {"history_depth": depth}
    chk.merge(bfs(chk, depth))
    fits = [dict(kind="fits", history=h) for h in
            [[[a, ow]] for a in ("A", "C", "F", "G", "D", "Z", "E") for ow in (False, True)] +
            [[[a, False], [b, ow]] for a in ("A", "F", "G", "Z") for b in ("A", "C", "F", "G", "Z") for ow in (False, True)]]
    fits += [dict(kind="fits", history=[[a, False]], epoch_scale=sc) for a in ("A", "F") for sc in ("utc", "tdb", "tt")]
    chk.merge(core.parallel(shard, core.interleave(fits, core.NPROC)))
    bc = build_batch_cases(chk.quick)
    chk.bounds["batch_read_cases"] = len(bc)
    chk.bounds["fits_histories"] = len(fits)
    chk.merge(core.parallel(shard, core.interleave(bc, core.NPROC * 2)))
    # every state's file content was read back through the implementation and compared with the model
    chk.total.validated = chk.total.transitions
    chk.assumptions += [
        "canonical state = reference file model (schema + rows + metadata); merging is sound because the real file's content is "
        "asserted equal to the model in every state before it is hashed",
        "appending a table whose t_ref is None to one with a t_ref (or vice versa) is 'either' (astropy merge semantics, not fixed by the property)",
        "a plain write onto an existing file must raise and leave the file byte-identical",
        "h5py/PyTables/astropy I/O are trusted at the byte level",
    ]
    return chk.finish(run_case)


def replay(doc):
    part = core.Part()
    run_case(doc["case"], part)
    for v in part.violations:
        print("REPRODUCED:", v["msg"], "\n expected:", v.get("expected"), "\n observed:", v.get("observed"))
    print("violations:", len(part.violations))
    return 1 if part.violations else 0
