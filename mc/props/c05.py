"""C05 — results do not depend on batching, pool, cache path or call history (E3 + E2)."""
import itertools
import os

import numpy as np

from .. import core, seams
from .. import problems as pb
from .. import sampler_driver as drv

PID = "C05"

# rows chosen to collide on every reused buffer: cap active / not, s=0 / s>0, e=0 / 0.9, short / long P
ROWS = np.array([
    [1.3, 0.9, 1.0, 0.5, 0.0],     # short P, high e -> K-variance cap active
    [700.0, 0.0, 4.0, 3.0, 2.5],   # long P, circular, jitter
    [3.7, 0.0, 0.2, 6.0, 0.0],
    [45.0, 0.6, 5.5, 1.2, 0.7],
    [1.05, 0.95, 2.2, 2.9, 0.0],   # cap active
    [180.0, 0.3, 3.3, 4.4, 0.0],
])

CONFIGS = {
    "defaultK_cap": dict(prior=dict(sigma_K0=300.0), data=dict(n=5, layout="short", err="hetero")),
    "customK": dict(prior=dict(kind="custom", K_custom=(2.0, 25.0), mu_v=(1.0, 0, 0)), data=dict(n=4, layout="long", err="uniform")),
    "trend2_offset": dict(prior=dict(poly_trend=2, n_offsets=1, mu_v=(0.5, 0.01, 0)), data=dict(n=6, layout="short", err="hetero", n_surveys=2)),
    # two surveys interleaved in time: the merged data are NOT time-sorted, so anything that rebuilds / re-sorts the data
    # on its way to a worker (pickling) mislabels the offsets
    "offset_interleaved": dict(prior=dict(poly_trend=1, n_offsets=1, off_sig=(6.0, 5.0)), data=dict(n=6, layout="short", err="uniform", n_surveys=2, interleave=True)),
}


def _helper(cfgname):
    from thejoker.data_helpers import validate_prepare_data
    from thejoker.src.fast_likelihood import CJokerHelper

    cfg = CONFIGS[cfgname]
    prior, dec = pb.make_prior(**cfg["prior"])
    data, dd = pb.make_data(**cfg["data"])
    all_data, ids, trend_M = validate_prepare_data(data, prior.poly_trend, prior.n_offsets)
    return CJokerHelper(all_data, prior, trend_M), (prior, data)


def _post(helper, i):
    rng = seams.RecordingGenerator(seed=123)
    raw, ll = helper.batch_get_posterior_samples(np.ascontiguousarray(ROWS[i : i + 1]), 1, rng)
    rec = [e for e in rng.log if e[0] == "mvn"][0]
    return np.array(rec[1]), np.array(rec[2]), np.array(raw), np.array(ll)


ROWS32 = ROWS.astype(np.float32).astype(np.float64)  # the values a library stored in single precision really holds


def _baseline(cfgname, rows=None):
    """values of every row evaluated alone on a fresh helper"""
    base = {"ll": [], "post": [], "tlw": []}
    if rows is not None:
        for i in range(len(rows)):
            h, _ = _helper(cfgname)
            base["ll"].append(float(np.array(h.batch_marginal_ln_likelihood(np.ascontiguousarray(rows[i : i + 1])))[0]))
        return base
    for i in range(len(ROWS)):
        h, _ = _helper(cfgname)
        base["ll"].append(float(np.array(h.batch_marginal_ln_likelihood(np.ascontiguousarray(ROWS[i : i + 1])))[0]))
        h, _ = _helper(cfgname)
        base["post"].append(_post(h, i))
        h, _ = _helper(cfgname)
        base["tlw"].append(float(h.test_likelihood_worker(np.ascontiguousarray(ROWS[i]))))
    return base


OPS = ([("ll", (i,)) for i in range(6)] + [("ll", (0, 2)), ("ll", (3, 1, 0)), ("ll", (4, 4, 1))]
       + [("post", i) for i in range(6)] + [("tlw", 0), ("tlw", 1), ("tlw", 4)] + [("dill",)])


def apply_history(cfgname, hist, base, part):
    import dill

    h, _ = _helper(cfgname)
    for step, op in enumerate(hist):
        case = dict(kind="history", config=cfgname, history=[list(map(lambda x: list(x) if isinstance(x, tuple) else x, o)) for o in hist[: step + 1]])
        part.transitions += 1
        if op[0] == "ll":
            rows = list(op[1])
            out = np.array(h.batch_marginal_ln_likelihood(np.ascontiguousarray(ROWS[rows])))
            want = np.array([base["ll"][i] for i in rows])
            if not np.array_equal(out, want, equal_nan=True):
                part.violation(case, "marginal ln-likelihood of a row depends on what the helper evaluated before / the batch it is in",
                               expected=want, observed=out)
                return False
        elif op[0] == "post":
            a, A, raw, ll = _post(h, op[1])
            wa, wA, wraw, wll = base["post"][op[1]]
            if not (np.array_equal(a, wa, equal_nan=True) and np.array_equal(A, wA, equal_nan=True)):
                part.violation(case, "conditional posterior (a, A) of a row depends on the helper's call history", expected=(wa, wA), observed=(a, A))
                return False
            if not np.array_equal(raw, wraw, equal_nan=True):
                part.violation(case, "posterior draw with an equal generator depends on the helper's call history", expected=wraw, observed=raw)
                return False
        elif op[0] == "tlw":
            v = float(h.test_likelihood_worker(np.ascontiguousarray(ROWS[op[1]])))
            if v != base["tlw"][op[1]] and not (np.isnan(v) and np.isnan(base["tlw"][op[1]])):
                part.violation(case, "test_likelihood_worker value depends on the helper's call history", expected=base["tlw"][op[1]], observed=v)
                return False
        elif op[0] == "dill":
            h = dill.loads(dill.dumps(h))
    return True


def shard_hist(items):
    part = core.Part()
    bases = {}
    for cfgname, hist in items:
        if cfgname not in bases:
            bases[cfgname] = _baseline(cfgname)
        ok = apply_history(cfgname, hist, bases[cfgname], part)
        part.states += 1
        part.record(dict(config=cfgname, history=[list(o) for o in hist]), outcome=(cfgname, tuple(map(str, hist)), ok),
                    nontrivial=len({o[0] for o in hist}) > 1 or len(hist) > 1)
    return part


# ---------------------------------------------------------------------------------------------
def exec_real(case, part):
    """marginal_ln_likelihood / rejection_sample through the public API on every execution path (real kernel)."""
    import schwimmbad
    import thejoker as tj

    cfg = CONFIGS[case["config"]]
    prior, dec = pb.make_prior(**cfg["prior"])
    data, dd = pb.make_data(**cfg["data"])
    samples = pb.make_samples(ROWS)
    base = _BASE.setdefault(case["config"], _baseline(case["config"]))
    want = np.array(base["ll"])
    if case.get("f32"):
        # a library whose columns are stored in single precision (a valid sample table): every path must evaluate the values it
        # really holds
        import astropy.units as u
        import thejoker as tj2

        samples = tj2.JokerSamples()
        for k, (nm, un) in enumerate(zip(["P", "e", "omega", "M0", "s"], [u.day, u.one, u.rad, u.rad, u.km / u.s])):
            samples[nm] = u.Quantity(ROWS[:, k].astype(np.float32), un, dtype=np.float32)
        assert samples["P"].dtype == np.float32
        base = _BASE.setdefault((case["config"], "f32"), _baseline(case["config"], ROWS32))
        want = np.array(base["ll"])
    scratch = seams.fresh_dir("c05")
    if case["pool"][0] == "serial":
        pool = schwimmbad.SerialPool()
    elif case["pool"][0] == "model":
        pool = seams.ModelPool(size=case["pool"][1], chunksize=case["pool"][2], order=(lambda n: list(range(n))[::-1]) if case["pool"][3] else None)
    else:
        pool = case["_pool"]
    joker = tj.TheJoker(prior, pool=pool, rng=np.random.default_rng(case.get("seed", 5)), tempfile_path=scratch)
    if case["path"] == "file":
        path = os.path.join(scratch, f"lib-{os.getpid()}.hdf5")
        samples.write(path, overwrite=True)
        ps = path
    else:
        ps = samples
    if case.get("foreign_pack"):
        # an unrelated user call earlier in the same process: packing some samples in other units must not change what
        # the sampler computes afterwards (process-wide defaults must not be written to)
        import astropy.units as u

        other = pb.make_samples(ROWS[:2])
        other.pack(units={"P": u.yr, "omega": u.deg, "M0": u.deg})
        other.pack(units={"P": u.hour}, nonlinear_only=False)
    try:
        if case["api"] == "mll":
            out = np.array(joker.marginal_ln_likelihood(data, ps, n_batches=case["n_batches"], in_memory=case["path"] == "inmem"))
            part.record({k: v for k, v in case.items() if not k.startswith("_")}, outcome=(tuple(out.tolist()),), nontrivial=case["n_batches"] not in (None, 1))
            if not np.array_equal(out, want, equal_nan=True):
                part.violation({k: v for k, v in case.items() if not k.startswith("_")},
                               "marginal ln-likelihoods differ from the values of the rows evaluated alone (or are out of input order)",
                               expected=want, observed=out)
        elif case["api"] == "mll_units_history":
            # call history on one TheJoker / one file NAME: the file is overwritten by the same physical library expressed
            # in other column units between the calls
            import astropy.units as u

            path2 = os.path.join(scratch, f"lib-{os.getpid()}.hdf5")
            outs = []
            for k in range(3):
                lib = pb.make_samples(ROWS)
                if k == 1:
                    lib["P"] = lib["P"].to(u.yr)
                    lib["omega"] = lib["omega"].to(u.deg)
                    lib["s"] = lib["s"].to(u.m / u.s)
                lib.write(path2, overwrite=True)
                outs.append(np.array(joker.marginal_ln_likelihood(data, path2, n_batches=case["n_batches"])))
            os.unlink(path2)
            part.record({k: v for k, v in case.items() if not k.startswith("_")}, outcome=(tuple(outs[1].tolist()),), nontrivial=True)
            for k, out in enumerate(outs):
                if not np.allclose(out, want, rtol=1e-9, atol=1e-9):
                    part.violation({k2: v for k2, v in case.items() if not k2.startswith("_")},
                                   f"call {k} of a history on one file name (library re-written in other units in between) gives values that differ "
                                   "from the rows' own values", expected=want, observed=out)
                    break
        elif case["api"] == "iter":
            # the iterative sampler on every path / batching / growth schedule with all-zero uniforms (every row with a finite
            # likelihood is accepted, whatever the batch structure): the same rows, each with its own values, must come back
            import astropy.units as u

            lib = pb.make_samples(ROWS)
            lib["ln_prior"] = -np.arange(len(ROWS), dtype=float) - 100.0
            if case["path"] == "file":
                lib.write(path, overwrite=True)
                ps = path
            else:
                ps = lib
            joker.rng = seams.ScriptedGenerator(case.get("seed", 5), uniform_fn=lambda size, k: np.zeros(int(size)))
            res = joker.iterative_rejection_sample(data, ps, n_requested_samples=len(ROWS), init_batch_size=case["init"], growth_factor=case["growth"],
                                                   n_batches=case["n_batches"], in_memory=case["path"] == "inmem", return_logprobs=True)
            P = np.atleast_1d(res["P"].to_value(u.day))
            acc = [int(np.argmin(np.abs(ROWS[:, 0] - p))) for p in P]
            ll = np.asarray(res["ln_likelihood"], dtype=float)
            lp = np.asarray(res["ln_prior"], dtype=float)
            wacc = [i for i in range(len(ROWS)) if np.isfinite(want[i])]
            cc = {k2: v for k2, v in case.items() if not k2.startswith("_")}
            part.record(cc, outcome=(tuple(acc), case["init"], case["growth"]), nontrivial=case["init"] < len(ROWS))
            if acc != wacc:
                part.violation(cc, "iterative sampler (every finite row accepted): returned rows depend on the execution path / batch schedule",
                               expected=wacc, observed=acc)
            else:
                for k, i in enumerate(acc):
                    if ll[k] != want[i] or lp[k] != -i - 100.0:
                        part.violation(cc, f"iterative sampler: returned row {k} is library row {i} but carries ln_likelihood {ll[k]} / ln_prior {lp[k]}",
                                       expected=(want[i], -i - 100.0), observed=(ll[k], lp[k]))
                        break
        elif case["api"] == "rej_rand":
            import astropy.units as u

            lib = pb.make_samples(ROWS)
            lib["ln_prior"] = -np.arange(len(ROWS), dtype=float) - 100.0
            if case["path"] == "file":
                lib.write(path, overwrite=True)
                ps = path
            else:
                ps = lib
            res, all_ll = joker.rejection_sample(data, ps, n_batches=case["n_batches"], randomize_prior_order=True, return_logprobs=True,
                                                 n_prior_samples=case.get("n_prior"), return_all_logprobs=True)
            # which library rows were evaluated, in evaluation order (rows have distinct likelihoods)
            evaluated = [int(np.argmin(np.abs(want - v))) for v in np.asarray(all_ll)]
            if not np.array_equal(np.asarray(all_ll), want[evaluated]):
                part.violation({k2: v for k2, v in case.items() if not k2.startswith("_")},
                               "return_all_logprobs values are not the evaluated rows' own likelihoods", expected=want[evaluated], observed=all_ll)
            P = np.atleast_1d(res["P"].to_value(u.day))
            acc = [int(np.argmin(np.abs(ROWS[:, 0] - p))) for p in P]
            ll = np.asarray(res["ln_likelihood"], dtype=float)
            lp = np.asarray(res["ln_prior"], dtype=float)
            part.record({k: v for k, v in case.items() if not k.startswith("_")}, outcome=(tuple(acc),), nontrivial=len(acc) > 1)
            for k, i in enumerate(acc):
                if ll[k] != want[i] or lp[k] != -i - 100.0:
                    part.violation({k2: v for k2, v in case.items() if not k2.startswith("_")},
                                   f"randomised order: returned row {k} is library row {i} but carries ln_likelihood {ll[k]} / ln_prior {lp[k]} "
                                   "(values are not in input order)", expected=(want[i], -i - 100.0), observed=(ll[k], lp[k]))
                    break
            # identical accepted list on every file-path variant for equal seeds
            key = (case["config"], case.get("n_prior"))
            if key not in _RAND_ACC:
                # canonical execution for this (configuration, n_prior): user file, default batching, same seed
                import schwimmbad

                cj = tj.TheJoker(prior, pool=schwimmbad.SerialPool(), rng=np.random.default_rng(case.get("seed", 5)), tempfile_path=scratch)
                cpath = os.path.join(scratch, f"canon-{os.getpid()}.hdf5")
                lib.write(cpath, overwrite=True)
                cres, call = cj.rejection_sample(data, cpath, randomize_prior_order=True, return_logprobs=True, n_prior_samples=case.get("n_prior"),
                                                 return_all_logprobs=True)
                os.unlink(cpath)
                cP = np.atleast_1d(cres["P"].to_value(u.day))
                _RAND_ACC[key] = ([int(np.argmin(np.abs(ROWS[:, 0] - p))) for p in cP], [int(np.argmin(np.abs(want - v))) for v in np.asarray(call)])
            first = _RAND_ACC[key]
            if evaluated != first[1]:
                part.violation({k2: v for k2, v in case.items() if not k2.startswith("_")},
                               "with equal seeds the prior samples evaluated (randomised subset) differ between execution paths", expected=first[1], observed=evaluated)
            first = first[0]
            if acc != first:
                part.violation({k2: v for k2, v in case.items() if not k2.startswith("_")},
                               "accepted set with equal seeds (randomised order) differs between execution paths", expected=first, observed=acc)
        else:
            res = joker.rejection_sample(data, ps, n_batches=case["n_batches"], in_memory=case["path"] == "inmem")
            import astropy.units as u

            P = np.atleast_1d(res["P"].to_value(u.day))
            acc = [int(np.argmin(np.abs(ROWS[:, 0] - p))) for p in P]
            # reference accepted set from the singleton values and the same seed's first uniform vector
            uu = np.random.default_rng(case.get("seed", 5)).uniform(size=len(ROWS))
            wacc = [int(i) for i in np.where(np.exp(want - want.max()) > uu)[0]]
            part.record({k: v for k, v in case.items() if not k.startswith("_")}, outcome=(tuple(acc),), nontrivial=0 < len(wacc) < len(ROWS))
            if acc != wacc:
                part.violation({k: v for k, v in case.items() if not k.startswith("_")},
                               "accepted set with equal seeds differs between execution paths", expected=wacc, observed=acc)
    except Exception as e:
        part.violation({k: v for k, v in case.items() if not k.startswith("_")}, f"{case['api']} raised {type(e).__name__}: {str(e)[:300]}")
    finally:
        if case["path"] == "file" and os.path.exists(path):
            os.unlink(path)


_BASE = {}
_RAND_ACC = {}


def exec_stub(case, part):
    """full chunking x chunk-order space on the stub kernel: values in input order whatever the schedule"""
    N = case["N"]
    lls = [-(i * 0.75) - 0.125 for i in range(N)]

    def run(ch):
        pool = seams.ModelPool(size=case["size"], chooser=ch)
        seams.reset_logs()
        joker = seams.make_stub_joker({i: lls[i] for i in range(N)}, np.random.default_rng(3), pool=pool, tempfile_path=seams.fresh_dir("c05s"))
        ps = seams.stub_library(N) if case["path"] == "obj" else drv.lib_file(N, False)
        out = joker.marginal_ln_likelihood(None, ps, n_batches=case["n_batches"])
        ev = [i for e in seams.CALL_LOG if e[0] == "ll" for i in e[1]]
        return np.array(out), ev, pool.maps

    for ch, (out, ev, maps) in seams.explore(run, bound=None, max_execs=3000):
        if ch is None:
            part.extra.setdefault("caps", []).append(dict(case=case))
            break
        part.states += 1
        part.transitions += len(ch.choices)
        c2 = dict(case, choices=ch.choices)
        part.record(c2, outcome=(tuple(maps),), nontrivial=any(ch.choices))
        if list(out) != lls or sorted(ev) != list(range(N)):
            part.violation(c2, "values are not the per-row values in input order under this pool schedule (chunk size / order)",
                           expected=lls, observed=(out.tolist(), ev, maps))


def exec_stub_sampler(case, part):
    """call histories of the samplers (stub kernel, real seeded generator) under equal batching on different pools: the
    accepted rows AND the linear draws of every call must be those of the serial pool"""
    import astropy.units as u

    N = case["N"]
    lls = {i: -0.35 * ((3 * i) % 5) for i in range(N)}  # acceptance ratios between 0.25 and 1: the uniforms matter

    def run(pool_spec):
        pool = drv.make_pool(list(pool_spec))
        joker = seams.make_stub_joker(lls, np.random.default_rng(case["seed"]), pool=pool, tempfile_path=seams.fresh_dir("c05p"))
        lib = seams.stub_library(N) if case["path"] == "obj" else drv.lib_file(N, False)
        out = []
        for call in case["calls"]:
            if call[0] == "rej":
                res = joker.rejection_sample(None, lib, n_batches=call[1], n_linear_samples=call[2])
            elif call[0] == "rejr":
                # randomised order (index-array route of the batch reader)
                res = joker.rejection_sample(None, lib, n_batches=call[1], n_linear_samples=call[2], randomize_prior_order=True,
                                             n_prior_samples=call[3] if len(call) > 3 else None)
            else:
                res = joker.iterative_rejection_sample(None, lib, n_requested_samples=call[1], init_batch_size=call[2], growth_factor=2, n_batches=call[3])
            out.append((np.atleast_1d(res["P"].to_value(u.day)).tolist(), np.atleast_1d(res["K"].to_value(u.km / u.s)).tolist()))
        return out

    try:
        ref = run(("serial",))
    except Exception as e:
        part.violation(case, f"serial run raised {type(e).__name__}: {str(e)[:200]}")
        return
    for spec in case["pools"]:
        c2 = dict(case, pool=list(spec))
        part.states += 1
        part.transitions += len(case["calls"])
        try:
            got = run(tuple(spec))
        except Exception as e:
            part.violation(c2, f"raised {type(e).__name__}: {str(e)[:200]}")
            return
        part.record(c2, outcome=(tuple(map(str, got)),), nontrivial=len(case["calls"]) > 1 or any(len(g[0]) > 1 for g in got))
        explicit = True  # batching identical on both pools so far (n_batches=None means "one batch per worker")
        for k, (a, b) in enumerate(zip(ref, got)):
            nb = case["calls"][k][1] if case["calls"][k][0] in ("rej", "rejr") else case["calls"][k][3]
            explicit = explicit and nb is not None
            if a[0] != b[0]:
                part.violation(dict(c2, call=k), f"call {k} ({case['calls'][k]}) with an equal seed returns other prior samples on this pool than on the serial pool",
                               expected=a[0], observed=b[0])
                return
            if explicit and a[1] != b[1]:
                part.violation(dict(c2, call=k), f"call {k} ({case['calls'][k]}) with equal seed and equal batching gives other linear draws on this pool than on the "
                               "serial pool", expected=a[1], observed=b[1])
                return


def run_case(case, part):
    if case["kind"] == "stub_sampler":
        return exec_stub_sampler(case, part)
    if case["kind"] == "history":
        hist = [tuple(tuple(x) if isinstance(x, list) else x for x in o) for o in case["history"]]
        base = _baseline(case["config"])
        apply_history(case["config"], hist, base, part)
    elif case["kind"] == "real":
        exec_real(case, part)
    else:
        exec_stub(case, part)


def shard_exec(cases):
    part = core.Part()
    for c in cases:
        core.guard(run_case, c, part)
    return part


def build(quick):
    hists = []
    depth = 3 if quick else 4
    nodill = [o for o in OPS if o[0] != "dill"]
    for cfg in CONFIGS:
        for d in range(1, depth + 1):
            ops = nodill if d < 4 else [o for o in nodill if o not in (("ll", (2,)), ("ll", (5,)), ("post", 2), ("post", 5), ("tlw", 1))]
            for h in itertools.product(ops, repeat=d):
                hists.append((cfg, list(h)))
        # histories with one pickling round trip (1 s each): [pre] dill [post]
        pres = [[]] + [[o] for o in nodill[::3]]
        posts = [[o] for o in nodill[::2]] if quick else [[o] for o in nodill]
        if quick and cfg != "defaultK_cap":
            pres, posts = pres[:2], posts[:3]
        for pre in pres:
            for post in posts:
                hists.append((cfg, pre + [("dill",)] + post))
    real = []
    N = len(ROWS)
    for cfg in CONFIGS:
        for api in ("mll", "rej", "rej_rand", "mll_units_history"):
            for path in ("inmem", "obj", "file"):
                nbs = [None] + list(range(1, N + 3))
                if path == "inmem":
                    nbs = [None]
                if api in ("rej_rand", "mll_units_history"):
                    if path == "inmem" or (api == "mll_units_history" and path == "obj"):
                        continue
                    nbs = [None, 2, N + 1]
                for nb in nbs:
                    real.append(dict(kind="real", config=cfg, api=api, path=path, n_batches=nb, pool=["serial"]))
                    if api == "mll" and nb in (None, 2):
                        real.append(dict(kind="real", config=cfg, api=api, path=path, n_batches=nb, pool=["serial"], foreign_pack=True))
                    if api == "rej_rand":
                        real.append(dict(kind="real", config=cfg, api=api, path=path, n_batches=nb, pool=["serial"], n_prior=N - 2))
                    if api == "mll" and nb in (None, 3):
                        real.append(dict(kind="real", config=cfg, api=api, path=path, n_batches=nb, pool=["serial"], f32=True))
        for path in ("inmem", "obj", "file"):
            for init, growth in ((1, 2), (2, 2), (2, 128), (4, 2), (N, 2)):
                for nb in ((None,) if path == "inmem" else (None, 2)):
                    if quick and (init, growth) in ((2, 128), (4, 2)) and path != "inmem":
                        continue
                    real.append(dict(kind="real", config=cfg, api="iter", path=path, n_batches=nb, pool=["serial"], init=init, growth=growth))
        # ModelPool x real kernel: a slice (each chunk rebuilds a helper ~1 s)
        for nb, pool in ((3, ["model", 2, 2, True]), (None, ["model", 3, 1, False])) if quick else \
                ((3, ["model", 2, 2, True]), (None, ["model", 3, 1, False]), (6, ["model", 2, 4, True]), (2, ["model", 5, 1, True])):
            for api in ("mll", "rej"):
                real.append(dict(kind="real", config=cfg, api=api, path="obj", n_batches=nb, pool=pool))
    stub = []
    for N_ in ((3, 4) if quick else (3, 4, 5, 6)):
        for nb in [None] + list(range(1, N_ + 3)):
            for size in (1, 2, 3, 5):
                if nb is not None and size != 2:
                    continue
                for path in ("obj", "file"):
                    if N_ >= 5 and (path == "obj" or nb not in (None, N_, N_ + 2)):
                        continue
                    stub.append(dict(kind="stub", N=N_, n_batches=nb, size=size, path=path))
    # sampler call histories across pools (stub kernel): pool sizes that do not divide the batch sizes, two calls in a row
    pools = [["model", 2, 1, False], ["model", 3, 1, True], ["model", 3, 2, False]] + ([] if quick else [["model", 5, 1, True], ["model", 2, 3, True]])
    for N_ in (7, 10):
        for path in ("obj", "file"):
            for calls in ([["rej", None, 1]], [["rej", 3, 2]], [["rej", None, 2], ["rej", None, 1]], [["rej", 2, 1], ["rej", None, 1]],
                          [["iter", 3, 2, None]], [["iter", 2, 4, 2]], [["iter", 3, 2, None], ["rej", None, 1]], [["rej", None, 1], ["iter", 4, 5, None]]):
                for seed in (3, 11):
                    stub.append(dict(kind="stub_sampler", N=N_, path=path, calls=calls, seed=seed, pools=pools))
    # a larger library in randomised order: index batches of several hundred rows each (block-read thresholds), one and two calls
    for N_ in (640, 1500):
        for path in ("obj", "file"):
            for calls in ([["rejr", 2, 1]], [["rejr", 3, 1, N_ - 100]], [["rejr", 2, 1], ["rejr", 2, 1]], [["iter", 40, 300, 2]]):
                stub.append(dict(kind="stub_sampler", N=N_, path=path, calls=calls, seed=7, pools=[["model", 2, 1, False], ["model", 3, 1, True]]))
    return hists, real, stub


def multipool_conformance(chk, quick):
    """the same matrix (without chunk-order choices) on real MultiPool(2) / MultiPool(3)"""
    import schwimmbad

    part = core.Part()
    sizes = (2,) if quick else (2, 3)
    for size in sizes:
        with schwimmbad.MultiPool(processes=size) as pool:
            for cfg in (["defaultK_cap", "offset_interleaved"] if quick else list(CONFIGS)):
                for api, nb in (("mll", None), ("rej", 3)) if quick else (("mll", None), ("mll", 4), ("rej", 3), ("rej", None)):
                    case = dict(kind="real", config=cfg, api=api, path="obj", n_batches=nb, pool=["multipool", size], _pool=pool)
                    before = len(part.violations)
                    exec_real(case, part)
                    if len(part.violations) == before:
                        part.validated += 1
    return part


def main():
    chk = core.Check(
        PID, "model_checking",
        "(a) all operation histories of depth<=3 (quick) / 4 on ONE real kernel helper per history over 21 operations "
        "{batch likelihood of single rows and of multi-row batches, posterior draw of each row, test_likelihood_worker, pickling round "
        "trip (one per history)} x 3 prior configurations - NO state merging (the helper has hidden scratch state); every value must be "
        "bitwise the value of that row on a fresh helper; (b) public API on every execution path (in memory / object cache / file) x "
        "n_batches in {None,1..N+2} x pools (Serial; ModelPool slice) with the real kernel, N=6, incl. the iterative sampler over initial batch size x growth factor with all-zero uniforms; (c) every chunk size x chunk order of the "
        "modelled pool on the stub kernel; (d) conformance on real MultiPool(2)/(3). Non-trivial: history mixes operations / more than one "
        "batch / a non-default schedule.",
    )
    hists, real, stub = build(chk.quick)
    chk.bounds = {"histories": len(hists), "history_depth": 3 if chk.quick else 4, "real_kernel_path_cases": len(real), "stub_schedule_configs": len(stub)}
    # histories with pickling are slow: spread them evenly
    slow = [h for h in hists if any(o[0] == "dill" for o in h[1])]
    fast = [h for h in hists if not any(o[0] == "dill" for o in h[1])]
    chk.merge(core.parallel(shard_hist, core.interleave(slow, core.NPROC)))
    chk.merge(core.parallel(shard_hist, core.interleave(fast, core.NPROC * 2)))
    # the randomised-order cases of one (configuration, n_prior) are compared with each other (object cache vs user file vs
    # batching): keep each group inside one worker process
    groups = {}
    rest = []
    for c in real:
        if c["api"] == "rej_rand":
            groups.setdefault((c["config"], c.get("n_prior")), []).append(c)
        else:
            rest.append(c)
    chk.merge(core.parallel(shard_exec, list(groups.values())))
    chk.merge(core.parallel(shard_exec, core.interleave(rest, core.NPROC)))
    chk.merge(core.parallel(shard_exec, core.interleave(stub, core.NPROC)))
    chk.merge(multipool_conformance(chk, chk.quick))
    if chk.total.extra.get("caps"):
        chk.caps.append(f"{len(chk.total.extra['caps'])} stub schedule configuration(s) hit the 3000-execution cap")
    chk.assumptions += [
        "worker processes share no memory, so (chunk size, chunk order, which tasks share a rebuilt helper) is the observable schedule space; "
        "the assumption that no process-global state matters is checked by the real MultiPool conformance runs (traces_validated_against_impl)",
        "rejection_sample with equal seeds: the accepted set is compared across paths; linear draws are not (streams differ by design)",
    ]
    return chk.finish(run_case)


def replay(doc):
    part = core.Part()
    run_case(doc["case"], part)
    for v in part.violations:
        print("REPRODUCED:", v["msg"], "\n expected:", v.get("expected"), "\n observed:", v.get("observed"))
    print("violations:", len(part.violations))
    return 1 if part.violations else 0
