"""C09 — prior draws and reported ln_prior follow the declared densities (E1)."""
import itertools

import numpy as np

from .. import core, seams

PID = "C09"
KIPPING = {"Kipping13Global": (0.867, 3.03), "Kipping13Short": (0.697, 3.27), "Kipping13Long": (1.12, 3.09)}


def _logp_fn(dist):
    import pymc as pm
    import pytensor
    import pytensor.tensor as pt

    v = pt.dvector("v")
    return pytensor.function([v], pm.logp(dist, v))


# ------------------------------------------------------------------------------------------------
def check_uniformlog(case, part):
    from thejoker.distributions import UniformLog, UniformLogRV

    a, b = case["a"], case["b"]
    j = case.get("jit", 0.0)
    a = a * (1 + 0.01 * j)
    d = UniformLog.dist(a, b)
    f = _logp_fn(d)
    inside = np.exp(np.linspace(np.log(a), np.log(b), 23))[1:-1]
    edge_in = np.array([a * (1 + 1e-9), b * (1 - 1e-9)])
    outside = np.array([a * (1 - 1e-6), b * (1 + 1e-6), a / 7.0, b * 13.0, -a])
    norm = np.log(np.log(b / a))
    try:
        got_in = f(np.concatenate([inside, edge_in]))
        got_out = f(outside)
    except Exception as e:
        part.violation(case, f"UniformLog.logp raised {type(e).__name__}: {e}")
        return
    want_in = -np.log(np.concatenate([inside, edge_in])) - norm
    part.record(case, outcome=(round(float(norm), 9),), nontrivial=True)
    if not np.allclose(got_in, want_in, rtol=1e-6, atol=1e-6):  # constants may be held in float32 by pytensor
        part.violation(dict(case, part="inside"), "UniformLog log-density inside (a, b) is not -ln x - ln ln(b/a)", expected=want_in[:4], observed=got_in[:4])
        return
    if not np.all(np.isneginf(got_out)):
        part.violation(dict(case, part="outside"), "UniformLog log-density outside (a, b) is not -inf", expected="-inf", observed=got_out)
        return
    # draws: inverse CDF on a u-lattice through the RV's own rng_fn
    us = np.concatenate([np.arange(64) / 64.0, [np.nextafter(1.0, 0.0)]])
    rng = seams.ScriptedGenerator(0, uniform_fn=lambda size, k: us[: int(np.prod(size))])
    x = np.asarray(UniformLogRV.rng_fn(rng, a, b, (len(us),)))
    want = a * (b / a) ** us
    lg = [e for e in rng.log if e[0] == "uniform"]
    if len(lg) != 1:
        part.violation(dict(case, part="draw"), "UniformLogRV does not draw exactly one uniform vector from the generator it is given", observed=lg)
        return
    if not np.allclose(x, want, rtol=1e-12) or np.any(x < a * (1 - 1e-12)) or np.any(x > b * (1 + 1e-12)):
        part.violation(dict(case, part="draw"), "UniformLog draws are not the inverse CDF of the declared density at u (or leave [a, b])",
                       expected=want[:5], observed=x[:5])


def check_kipping(case, part):
    import scipy.stats as st
    import thejoker.distributions as D
    import pytensor

    name = case["name"]
    al, be = KIPPING[name]
    d = getattr(D, name).dist()
    f = _logp_fn(d)
    x_in = np.array([1e-6, 0.01, 0.1, 0.3, 0.5, 0.77, 0.9, 0.999])
    x_out = np.array([-0.1, 1.2, -1e-9, 1 + 1e-9])
    got = f(x_in)
    want = st.beta(al, be).logpdf(x_in)
    part.record(case, outcome=(al, be), nontrivial=True)
    if not np.allclose(got, want, rtol=1e-9, atol=1e-9):
        part.violation(case, f"{name} log-density is not Beta({al}, {be})", expected=want, observed=got)
        return
    if not np.all(np.isneginf(f(x_out))):
        part.violation(case, f"{name} log-density outside [0,1] is not -inf", observed=f(x_out))
        return
    # the sampler op and its constants: beta(alpha, beta)
    op = d.owner.op
    params = [float(p.eval()) for p in op.dist_params(d.owner)]
    if type(op).__name__.lower().find("beta") < 0 or not np.allclose(params, [al, be]):
        part.violation(case, f"{name} does not draw from Beta({al}, {be})", expected=(al, be), observed=(type(op).__name__, params))


def check_fcm(case, part):
    """FixedCompanionMass: scale rule with cap, as sampler parameters and as log-density"""
    import astropy.units as u
    import pymc as pm
    import pytensor
    import pytensor.tensor as pt
    import scipy.stats as st
    import thejoker.units as xu
    from thejoker.distributions import FixedCompanionMass

    sK0, P0d, maxK, Kunit, Punit = case["sigma_K0"], case["P0_days"], case["max_K"], case["K_unit"], case["P_unit"]
    Ku = u.km / u.s if Kunit == "km/s" else u.m / u.s
    Kf = 1.0 if Kunit == "km/s" else 1000.0
    Pu = {"day": u.day, "yr": u.yr}[Punit]
    Pf = (1 * u.day).to_value(Pu)
    P = pt.dvector("P")
    e = pt.dvector("e")
    Pt = xu.with_unit(P, Pu)
    kw = dict(P=Pt, e=e, sigma_K0=sK0 * Kf * Ku, P0=P0d * u.day)
    if maxK is not None:
        kw["max_K"] = maxK * Kf * Ku
    d = FixedCompanionMass.dist(**kw)
    mu_g, sig_g = d.owner.op.dist_params(d.owner)
    fsig = pytensor.function([P, e], [mu_g, sig_g], on_unused_input="ignore")
    Pg = np.array([0.5, 2.0, 30.0, 365.25, 5000.0])
    eg = np.array([0.0, 0.3, 0.9, 0.99])
    PP, EE = [x.ravel() for x in np.meshgrid(Pg, eg)]
    mu, sig = fsig(PP * Pf, EE)
    cap = (500.0 if maxK is None else maxK)
    want = np.minimum(sK0 * (PP / P0d) ** (-1.0 / 3.0) / np.sqrt(1 - EE**2), cap) * Kf
    ncap = int(np.sum(sK0 * (PP / P0d) ** (-1.0 / 3.0) / np.sqrt(1 - EE**2) > cap))
    part.record(case, outcome=(ncap,), nontrivial=0 < ncap < len(PP))
    if not np.allclose(np.broadcast_to(sig, want.shape), want, rtol=1e-9) or not np.allclose(mu, 0.0):
        part.violation(case, "K-prior scale handed to the sampler is not min(sigma_K0 (P/P0)^(-1/3)/sqrt(1-e^2), max_K) in the K unit (mean 0)",
                       expected=want, observed=np.broadcast_to(sig, want.shape))
        return
    K = pt.dvector("K")
    flogp = pytensor.function([K, P, e], pm.logp(d, K), on_unused_input="ignore")
    Kv = np.linspace(-3, 3, len(PP)) * want
    got = flogp(Kv, PP * Pf, EE)
    wl = st.norm(0, want).logpdf(Kv)
    if not np.allclose(got, wl, rtol=1e-9, atol=1e-9):
        part.violation(case, "K-prior log-density is not Normal(0, capped scale)", expected=wl[:4], observed=got[:4])


# ------------------------------------------------------------------------------------------------
def check_sample(case, part):
    """prior.sample(return_logprobs=True): ln_prior - sum(declared log-densities) constant over the rows of a call"""
    import astropy.units as u
    import pymc as pm
    import scipy.stats as st
    import thejoker as tj

    Pmin, Pmax = case["P_lim"]
    sK0, P0d, sv, pt_, gl = case["sigma_K0"], case["P0_days"], case["sigma_v"], case["poly_trend"], case["generate_linear"]
    Punit = case.get("P_unit", "day")
    Pu = {"day": u.day, "yr": u.yr}[Punit]
    import thejoker.units as xu

    custom = case.get("custom")  # user-declared priors on nonlinear parameters: their terms belong to ln_prior too
    with pm.Model() as model:
        svq = [sv[i] * u.km / u.s / u.day**i for i in range(pt_)]
        kw, pars = {}, {}
        if custom in ("s_lognormal", "both"):
            kw["s"] = xu.with_unit(pm.LogNormal("s", np.log(0.4), 0.6), u.km / u.s)
        if custom in ("omega_vonmises", "both"):
            pars["omega"] = xu.with_unit(pm.VonMises("omega", 1.0, 2.0), u.rad)
        if custom in ("e_truncated",):
            # composite pymc distributions (Truncated / Mixture) are valid priors too
            pars["e"] = xu.with_unit(pm.Truncated("e", pm.Beta.dist(0.867, 3.03), lower=None, upper=0.6), u.one)
        if custom in ("s_mixture",):
            kw["s"] = xu.with_unit(pm.Mixture("s", w=[0.3, 0.7], comp_dists=[pm.LogNormal.dist(np.log(0.1), 0.3), pm.LogNormal.dist(np.log(2.0), 0.5)]), u.km / u.s)
        if custom in ("K_given_P",):
            # a user-declared Normal on K whose width depends on the period (the documented way to customise the K prior)
            from thejoker.distributions import UniformLog

            Pv2 = xu.with_unit(UniformLog("P", Pmin, Pmax), u.day)
            pars = {"P": Pv2, "K": xu.with_unit(pm.Normal("K", 1.5, 25.0 * (Pv2 / 64.0) ** (-1.0 / 3.0)), u.km / u.s)}
        if custom in ("P_det",):
            # the period declared through a deterministic transform of a variable that is not one of The Joker's parameters
            import pytensor.tensor as ptt

            lnP_ = pm.Uniform("lnP", np.log(Pmin), np.log(Pmax))
            pars["P"] = xu.with_unit(pm.Deterministic("P", ptt.exp(lnP_)), u.day)
        if custom in ("M0_uniform",):
            pars["M0"] = xu.with_unit(pm.Uniform("M0", 0.0, 2 * np.pi), u.rad)
        if custom in ("e_given_P", "e_given_P_rev"):
            # a user prior in which one nonlinear parameter depends on another one; given in either dictionary order
            from thejoker.distributions import UniformLog

            Pv = xu.with_unit(UniformLog("P", Pmin, Pmax), u.day)
            ev = xu.with_unit(pm.Beta("e", 0.867, 3.03 + 20.0 / Pv), u.one)
            pars = {"e": ev, "P": Pv} if custom == "e_given_P" else {"P": Pv, "e": ev}
        # "P_mixed": the two limits of the period prior are given in DIFFERENT time units
        Pmin_q = (Pmin * u.day).to(u.hour if case.get("P_mixed") else Pu)
        prior = tj.JokerPrior.default(P_min=Pmin_q, P_max=(Pmax * u.day).to(Pu), sigma_K0=sK0 * u.km / u.s, P0=P0d * u.day,
                                      sigma_v=svq if pt_ > 1 else svq[0], poly_trend=pt_, model=model, pars=pars if pars else None, **kw)
    for seed in case["seeds"]:
        c2 = dict(case, seed=seed)
        try:
            s = prior.sample(size=case["size"], generate_linear=gl, return_logprobs=True, rng=np.random.default_rng(seed))
        except Exception as e:
            part.violation(c2, f"prior.sample raised {type(e).__name__}: {str(e)[:200]}")
            return
        P = s["P"].to_value(u.day)
        e = np.asarray(s["e"])
        lp = np.asarray(s["ln_prior"], dtype=float)
        # draws inside their supports
        if np.any(P < Pmin * (1 - 1e-12)) or np.any(P > Pmax * (1 + 1e-12)) or np.any(e < 0) or np.any(e > 1):
            part.violation(c2, "prior draws outside their support", observed=(P.min(), P.max(), e.min(), e.max()))
            return
        for ang in ("omega", "M0"):
            a = s[ang].to_value(u.rad)
            if np.ptp(a) > 2 * np.pi + 1e-12 or np.any(np.abs(a) > 2 * np.pi + 1e-12):
                part.violation(c2, f"{ang} draws do not lie in one 2pi interval", observed=(a.min(), a.max()))
                return
        if custom in ("e_given_P", "e_given_P_rev"):
            decl = -np.log(s["P"].value) + st.beta(0.867, 3.03 + 20.0 / P).logpdf(e)
        else:
            decl = -np.log(s["P"].value) + st.beta(*KIPPING["Kipping13Global"]).logpdf(e)
        if custom == "e_truncated":
            decl = -np.log(s["P"].value) + st.beta(0.867, 3.03).logpdf(e) - np.log(st.beta(0.867, 3.03).cdf(0.6))
            if np.any(e > 0.6):
                part.violation(c2, "draws of a prior truncated at e < 0.6 exceed the bound", observed=float(e.max()))
                return
        if custom == "s_mixture":
            sv_ = s["s"].to_value(u.km / u.s)
            decl = decl + np.log(0.3 * st.lognorm(0.3, scale=0.1).pdf(sv_) + 0.7 * st.lognorm(0.5, scale=2.0).pdf(sv_))
        if custom in ("s_lognormal", "both"):
            decl = decl + st.lognorm(0.6, scale=0.4).logpdf(s["s"].to_value(u.km / u.s))
        if custom in ("omega_vonmises", "both"):
            decl = decl + st.vonmises(2.0, loc=1.0).logpdf(s["omega"].to_value(u.rad))
        if gl:
            K = s["K"].to_value(u.km / u.s)
            if custom == "K_given_P":
                sigK = 25.0 * (P / 64.0) ** (-1.0 / 3.0)
                decl = decl + st.norm(1.5, sigK).logpdf(K)
            else:
                sigK = np.minimum(sK0 * (P / P0d) ** (-1.0 / 3.0) / np.sqrt(1 - e**2), 500.0)
                decl = decl + st.norm(0, sigK).logpdf(K)
            for i in range(pt_):
                vi = s[f"v{i}"].to_value(u.km / u.s / u.day**i)
                decl = decl + st.norm(0, sv[i]).logpdf(vi)
        if gl and case.get("probe"):
            # dependence probe: K must have been drawn with the scale of its OWN row's (P, e).  With sigma_K varying by a
            # factor > 400 across the period range, a K drawn at another (P', e') gives |K| / sigma_K(P_row, e_row) far
            # beyond any standard-normal value; for correct draws |z| > 8.5 has probability 2e-17 per row (numpy's normal
            # sampler is trusted).  This is a tail bound at fixed seeds, not a statistical test.
            z = np.abs(K / sigK)
            if np.max(z) > 8.5:
                j = int(np.argmax(z))
                part.violation(c2, "a drawn K is not compatible with Normal(0, sigma_K(P, e)) of its own row: the linear parameters were not drawn "
                               "jointly with the row's nonlinear parameters", expected="|K|/sigma_K <= 8.5", observed=(float(z[j]), float(P[j]), float(e[j])))
                return
        diff = lp - decl
        part.record(c2, outcome=(round(float(np.ptp(diff)), 6),), nontrivial=True)
        if lp.shape != (case["size"],) or not np.all(np.isfinite(lp)):
            part.violation(c2, "ln_prior column is not one finite scalar per row", observed=lp)
            return
        if np.ptp(diff) > 1e-8 * (1 + np.max(np.abs(decl))):
            part.violation(c2, "ln_prior is not (up to one additive constant) the log of the joint density the rows were drawn from: "
                           "ln_prior - sum of declared log-densities varies across the rows of one call", expected="constant", observed=diff[:6])
            return


def run_case(case, part):
    {"uniformlog": check_uniformlog, "kipping": check_kipping, "fcm": check_fcm, "sample": check_sample}[case["kind"]](case, part)


def shard(cases):
    part = core.Part()
    for c in cases:
        try:
            run_case(c, part)
        except Exception as e:  # harness or library failure on a valid configuration
            import traceback

            part.violation(c, f"{type(e).__name__}: {str(e)[:300]} | {traceback.format_exc()[-400:]}")
    return part


def build(quick, seed):
    jit = core.seeded_jitter(seed, "c09")
    cases = [dict(kind="uniformlog", a=a, b=b, jit=jit) for a, b in ((1.0, 10.0), (2.0, 100.0), (0.5, 2e4), (1e-3, 1.0), (0.3, 0.9))]
    cases += [dict(kind="kipping", name=n) for n in KIPPING]
    for sK0, P0d, maxK, Ku, Pu in itertools.product((30.0, 300.0, 1.5), (365.25, 100.0), (None, 50.0, 1000.0), ("km/s", "m/s"), ("day", "yr")):
        cases.append(dict(kind="fcm", sigma_K0=sK0, P0_days=P0d, max_K=maxK, K_unit=Ku, P_unit=Pu))
    samp = []
    lims = [(1.0, 1000.0), (2.0, 50.0)] if quick else [(1.0, 1000.0), (2.0, 50.0), (0.3, 3e4)]
    for lim in lims:
        for sK0 in ((30.0, 300.0) if not quick else (300.0,)):
            for P0d in (365.25, 50.0):
                for pt_ in (1, 2):
                    for gl in (False, True):
                        for Pu in ("day", "yr"):
                            if quick and Pu == "yr" and (pt_ == 2 or P0d == 50.0):
                                continue
                            samp.append(dict(kind="sample", P_lim=list(lim), sigma_K0=sK0, P0_days=P0d, sigma_v=[100.0, 0.5], poly_trend=pt_,
                                             generate_linear=gl, P_unit=Pu, size=16, seeds=[0, 1] if quick else [0, 1, 2, 3]))
    samp.append(dict(kind="sample", P_lim=[0.1, 1e7], sigma_K0=30.0, P0_days=365.25, sigma_v=[100.0, 0.5], poly_trend=1, generate_linear=True,
                     P_unit="day", size=64, seeds=[0, 1, 2, 3], probe=True))
    for Pu_ in ("day", "yr"):
        for gl_ in (False, True):
            samp.append(dict(kind="sample", P_lim=[2.0, 550.0], sigma_K0=30.0, P0_days=365.25, sigma_v=[100.0, 0.5], poly_trend=1, generate_linear=gl_,
                             P_unit=Pu_, size=16, seeds=[0, 1], P_mixed=True))
    for custom in ("s_lognormal", "omega_vonmises", "both", "M0_uniform", "e_given_P", "e_given_P_rev", "e_truncated", "s_mixture", "P_det", "K_given_P"):
        for gl in (False, True):
            samp.append(dict(kind="sample", P_lim=[1.0, 1000.0], sigma_K0=30.0, P0_days=365.25, sigma_v=[100.0, 0.5], poly_trend=1, generate_linear=gl,
                             P_unit="day", size=16, seeds=[0, 1], custom=custom))
    return cases, samp


def main():
    chk = core.Check(
        PID, "exploration",
        "(a) log-densities on grids inside / just inside and outside / far outside the support: UniformLog for 5 (a,b) pairs, the three "
        "Kipping Beta priors, FixedCompanionMass over sigma_K0 x P0 x max_K x K unit x P unit (72 parameterisations x a 20-point (P,e) grid "
        "straddling the cap) against closed forms; (b) draws: UniformLogRV.rng_fn on a scripted u-lattice {0,1/64,..,63/64,1-ulp} must be "
        "the inverse CDF; for native samplers the op and its parameter graph (scale rule with cap; Beta constants) are evaluated on the "
        "grid; (c) prior.sample(return_logprobs=True) over (P_min,P_max) x sigma_K0 x P0 x poly_trend x generate_linear x P unit x seeds: "
        "ln_prior minus the declared log-densities of the drawn columns must be constant over the rows of a call; one tail-bound probe of "
        "the joint draw (K vs its own row's sigma_K over a 8-decade period range). Non-trivial: all cases "
        "(for FixedCompanionMass: the cap is active on part of the grid).",
    )
    cases, samp = build(chk.quick, chk.seed)
    chk.bounds = {"density_cases": len(cases), "sample_configurations": len(samp)}
    chk.merge(core.parallel(shard, core.interleave(cases, core.NPROC)))
    chk.merge(core.parallel(shard, core.interleave(samp, core.NPROC)))
    chk.assumptions += [
        "numpy's uniform / beta / normal samplers and pymc_ext's angle distribution are trusted to follow what they document; the check "
        "decides the transform applied to the uniform, the sampler op and its parameters (no statistical test is run)",
    ]
    return chk.finish(run_case)


def replay(doc):
    part = core.Part()
    run_case(doc["case"], part)
    for v in part.violations:
        print("REPRODUCED:", v["msg"], "\n expected:", v.get("expected"), "\n observed:", v.get("observed"))
    print("violations:", len(part.violations))
    return 1 if part.violations else 0
