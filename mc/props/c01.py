"""C01 — marginal log-likelihood equals the analytic Gaussian marginal (E1 vs closed form)."""
import itertools
import os

import numpy as np

from .. import core, seams
from .. import problems as pb
from ..numoracle import LnLOracle

PID = "C01"


def prior_kwargs(cfg):
    kw = dict(poly_trend=cfg["poly_trend"], n_offsets=cfg["n_offsets"], v_unit=cfg["v_unit"], P_unit=cfg["P_unit"])
    if cfg["K"] == "default":
        kw.update(kind="default", sigma_K0=30.0)
    elif cfg["K"] == "default_cap":
        kw.update(kind="default", sigma_K0=300.0)  # sigma_K0 (P/P0)^(-1/3)/sqrt(1-e^2) exceeds max_K=500 km/s for short P / high e
    else:
        kw.update(kind="custom", K_custom=(0.0, 25.0) if cfg["means"] == "zero" else (3.0, 25.0))
    # every linear slot gets a distinct variance so a mis-slotted entry is visible
    kw["sigma_v"] = (80.0, 1.5, 0.04)
    kw["off_sig"] = (3.0, 7.0)
    if cfg["means"] == "nonzero":
        kw["mu_v"] = (5.0, 0.2, -0.01)
        kw["off_mu"] = (1.0, -2.0)
    # half of the configurations write their integral prior constants as Python ints (pytensor keeps them as small integer constants)
    kw["int_consts"] = (cfg["poly_trend"] + cfg["n_offsets"]) % 2 == 0
    # the reference period of the default K prior: the default (1 yr) for one third of the configurations, other values elsewhere
    kw["P0_days"] = {0: 365.25, 1: 200.0, 2: 1000.0}[cfg["n_offsets"]]
    if cfg["K"] in ("default", "default_cap") and cfg["means"] == "nonzero" and cfg["poly_trend"] != 2:
        kw["mu_K"] = 4.0  # the default-form K prior declared with a mean of its own
    return kw


def theta_grid(quick, seed, sigbar, full=False):
    j = core.seeded_jitter(seed, "theta")
    Ps = [0.7 + 0.01 * j, 3.3, 41.7 + j, 365.25, 2500.0]
    es = [0.0, 0.1, 0.5, 0.9, 0.99]
    es_fin = [0.995, 0.9999]
    if quick and not full:
        oms, M0s = [1.3, -2.0], [0.0, 5.5]
    else:
        oms, M0s = [0.0, 1.3, 3.9, -2.0, 7.0], [0.0, 2.1, 5.5]
    ss = [0.0, 0.3 * sigbar, 10.0 * sigbar]
    rows = [[P, e, om, M0, s] for P in Ps for e in es for om in oms for M0 in M0s for s in ss]
    rows += [[P, e, oms[0], M0s[-1], s] for P in Ps for e in es_fin for s in ss]
    return np.array(rows)


def data_shapes(quick):
    out = []
    Ns = (1, 2, 3, 5) if quick else (1, 2, 3, 5, 8)
    if quick:
        combos = [("short", "hetero", "km/s", False), ("long", "uniform", "m/s", True), ("repeat", "large", "km/s", False), ("short", "tiny", "km/s", True)]
        for N in Ns:
            for c in (combos if N in (3, 5) else combos[:2]):
                out.append(dict(n=N, layout=c[0], err=c[1], unit=c[2], tref=c[3]))
        # documented option t_ref=False (no reference epoch subtracted: phases relative to BMJD 0)
        out.append(dict(n=3, layout="short", err="hetero", unit="km/s", tref="none"))
        out.append(dict(n=5, layout="long", err="uniform", unit="m/s", tref="none"))
        # raw input that needs the documented cleaning + sorting; several surveys handed over as a dict with unsorted insertion order
        out.append(dict(n=5, layout="short", err="hetero", unit="km/s", tref=False, raw="dirty", container="dict"))
        out.append(dict(n=3, layout="long", err="uniform", unit="m/s", tref=True, raw="dirty"))
        out.append(dict(n=5, layout="short", err="uniform", unit="km/s", tref=True, container="dict"))
        # a data set obtained by slicing / masking a longer one
        out.append(dict(n=3, layout="short", err="hetero", unit="km/s", tref=False, sliced="slice"))
        out.append(dict(n=5, layout="long", err="uniform", unit="m/s", tref=False, sliced="mask"))
        # epochs handed over as plain arrays (BMJD): float64, and integer-dtype whole-day stamps with a fractional explicit t_ref
        out.append(dict(n=5, layout="short", err="hetero", unit="km/s", tref=True, tform="int"))
        out.append(dict(n=3, layout="long", err="uniform", unit="m/s", tref=False, tform="float"))
    else:
        for N in Ns:
            for layout in ("short", "long", "repeat"):
                for err in ("uniform", "hetero", "tiny", "large"):
                    for unit in ("km/s", "m/s"):
                        for tref in (False, True):
                            # keep 36 shapes: a Latin-square style selection over (unit, tref)
                            if (Ns.index(N) + ["short", "long", "repeat"].index(layout) + ["uniform", "hetero", "tiny", "large"].index(err)) % 4 != \
                                    (2 * (unit == "m/s") + tref):
                                continue
                            out.append(dict(n=N, layout=layout, err=err, unit=unit, tref=tref))
        for N, layout, err, unit in ((1, "short", "uniform", "km/s"), (2, "long", "hetero", "m/s"), (3, "short", "hetero", "km/s"), (5, "long", "uniform", "m/s"),
                                     (5, "repeat", "large", "km/s"), (8, "short", "hetero", "m/s")):
            out.append(dict(n=N, layout=layout, err=err, unit=unit, tref="none"))
        for N, layout, err, unit, tref, raw, cont in ((5, "short", "hetero", "km/s", False, "dirty", "dict"), (3, "long", "uniform", "m/s", True, "dirty", "list"),
                                                     (5, "short", "uniform", "km/s", True, "clean", "dict"), (8, "long", "hetero", "m/s", False, "dirty", "dict"),
                                                     (8, "repeat", "large", "km/s", True, "dirty", "list"), (2, "short", "tiny", "m/s", False, "dirty", "dict")):
            out.append(dict(n=N, layout=layout, err=err, unit=unit, tref=tref, raw=raw, container=cont))
        for N, layout, err, unit, sl in ((3, "short", "hetero", "km/s", "slice"), (5, "long", "uniform", "m/s", "mask"), (8, "short", "uniform", "km/s", "slice"), (2, "repeat", "large", "m/s", "mask")):
            out.append(dict(n=N, layout=layout, err=err, unit=unit, tref=False, sliced=sl))
        for N, layout, err, unit, tref, tf in ((5, "short", "hetero", "km/s", True, "int"), (3, "long", "uniform", "m/s", False, "float"), (8, "long", "hetero", "m/s", True, "int"),
                                               (2, "short", "uniform", "km/s", True, "float"), (5, "repeat", "large", "km/s", False, "int")):
            out.append(dict(n=N, layout=layout, err=err, unit=unit, tref=tref, tform=tf))
    return out


def configs(quick):
    out = []
    for pt in (1, 2, 3):
        for no in (0, 1, 2):
            for K in ("default", "default_cap", "custom"):
                for means in ("zero", "nonzero"):
                    for vu in ("km/s", "m/s"):
                        for Pu in ("day", "yr"):
                            out.append(dict(poly_trend=pt, n_offsets=no, K=K, means=means, v_unit=vu, P_unit=Pu))
    if quick:
        # pairwise-style reduction: 24 configurations that still contain every value of every dimension and every
        # (poly_trend, n_offsets) and (K kind, n_offsets) pair
        sel = []
        for k, c in enumerate(out):
            h = (c["poly_trend"] * 7 + c["n_offsets"] * 5 + ["default", "default_cap", "custom"].index(c["K"]) * 3
                 + (c["means"] == "nonzero") * 2 + (c["v_unit"] == "m/s") + 4 * (c["P_unit"] == "yr"))
            if h % 9 == 0:
                sel.append(c)
        out = sel
    return out


def run_config(cfg, shapes, quick, seed, part, full_grid_shapes=()):
    import thejoker as tj

    try:
        prior, dec = pb.make_prior(cache=False, **prior_kwargs(cfg))
    except Exception as e:
        part.violation(dict(kind="config", cfg=cfg), f"building a valid prior raised {type(e).__name__}: {e}")
        return
    scratch = seams.fresh_dir("c01")
    joker = tj.TheJoker(prior, tempfile_path=scratch)
    for si, sh in enumerate(shapes):
        if sh["n"] < cfg["n_offsets"] + 1:
            continue
        t_ref = pb.shape_tref(sh, cfg["n_offsets"])
        data, dd = pb.make_data(n=sh["n"], raw=sh.get("raw", "clean"), container=sh.get("container", "list"), sliced=sh.get("sliced", False), tform=sh.get("tform", "time"), layout=sh["layout"], err=sh["err"], unit=sh["unit"], t_ref=t_ref, seed=seed,
                                n_surveys=cfg["n_offsets"] + 1, t_ref_scale=("utc" if sh["n"] % 2 else "tcb"), interleave=(not sh["tref"]), mixed_units=bool(sh["tref"]))
        problem = pb.ref_problem(dd, dec)
        sigbar = float(np.mean(dd["sig"]))
        theta = theta_grid(quick, seed, sigbar, full=(si in full_grid_shapes))
        samples = pb.make_samples(theta)  # s column in km/s
        case0 = dict(kind="cell", cfg=cfg, shape=sh)
        outs = {}
        dlist = list(data.values()) if isinstance(data, dict) else (data if isinstance(data, list) else [data])
        snap = [(np.array(d._t_bmjd).copy(), np.array(d.rv.value).copy(), np.array(d.rv_err.value).copy(), float(d._t_ref_bmjd)) for d in dlist]
        ssnap = {k: np.array(samples[k].value).copy() for k in samples.par_names}
        try:
            outs["inmem"] = np.array(joker.marginal_ln_likelihood(data, samples, in_memory=True))
            if si % 2 == 0 or not quick:
                outs["obj"] = np.array(joker.marginal_ln_likelihood(data, samples))
                path = os.path.join(scratch, f"lib-{os.getpid()}.hdf5")
                samples.write(path, overwrite=True)
                outs["file"] = np.array(joker.marginal_ln_likelihood(data, path, n_batches=3))
                os.unlink(path)
        except Exception as e:
            part.violation(case0, f"marginal_ln_likelihood raised on a valid input: {type(e).__name__}: {str(e)[:300]}")
            continue
        for d, (t0_, v0_, e0_, r0_) in zip(dlist, snap):
            if not (np.array_equal(d._t_bmjd, t0_) and np.array_equal(d.rv.value, v0_) and np.array_equal(d.rv_err.value, e0_) and float(d._t_ref_bmjd) == r0_):
                part.violation(case0, "marginal_ln_likelihood modified the data object it was given")
                break
        for k, v in ssnap.items():
            if not np.array_equal(np.array(samples[k].value), v):
                part.violation(case0, f"marginal_ln_likelihood modified column {k} of the samples it was given")
                break
        # theta in the *data's* unit for the reference (jitter column)
        th_ref = theta.copy()
        th_ref[:, 4] *= dd["factor"]
        orc = LnLOracle(problem, th_ref)
        for pathname, impl in outs.items():
            if impl.shape != (len(theta),):
                part.violation(dict(case0, path=pathname), "wrong output shape", expected=len(theta), observed=impl.shape)
                continue
            verd = orc.classify(impl)
            ref0 = orc.ref()[0]
            for i, v in enumerate(verd):
                if v[0] == "pass":
                    # non-trivial: the features matter (jitter / trend / offsets / prior means change the value)
                    part.evals += 1
                elif v[0] in ("finite-only", "untrusted"):
                    part.evals += 1
                    part.add(v[0].replace("-", "_"))
                elif v[0] == "known":
                    part.evals += 1
                    for fid in v[1]:
                        part.known_finding(fid, dict(case0, path=pathname, theta=theta[i].tolist()),
                                           f"impl={impl[i]!r} exact={ref0[i]!r}")
                else:
                    part.evals += 1
                    part.violation(dict(kind="row", cfg=cfg, shape=sh, path=pathname, theta=theta[i].tolist(), seed=seed), v[1], expected=v[2], observed=v[3])
            if pathname == "inmem":
                # distinct outcomes / non-trivial: rows whose value differs from the zero-jitter, zero-mean simplification
                npass = sum(1 for v in verd if v[0] == "pass")
                part.outcomes.update(core.okey((cfg, sh, round(float(x), 6))) for x in impl[:: max(1, len(impl) // 40)])
                part.nontrivial.update(core.okey((cfg, sh, theta[i].tolist())) for i, v in enumerate(verd) if v[0] == "pass" and i % 7 == 0)
                part.add("rows_exact_pass", npass)
            elif not np.array_equal(impl, outs["inmem"], equal_nan=True):
                part.violation(dict(case0, path=pathname), "file-path values differ from the in-memory values for the same samples",
                               expected=outs["inmem"][:5], observed=impl[:5])
        if len(part.samples) < 2:
            part.samples.append(core.jsonable(dict(cfg=cfg, shape=sh, theta=theta[17].tolist(), impl=float(outs["inmem"][17]), exact=float(orc.ref()[0][17]))))


def shard(items, quick=True, seed=0):
    part = core.Part()
    for cfg, shapes, fullsh in items:
        run_config(cfg, shapes, quick, seed, part, fullsh)
    return part


def run_case(case, part):
    """replay of one row"""
    import thejoker as tj

    cfg, sh = case["cfg"], case["shape"]
    prior, dec = pb.make_prior(cache=False, **prior_kwargs(cfg))
    t_ref = pb.shape_tref(sh, cfg["n_offsets"])
    data, dd = pb.make_data(n=sh["n"], raw=sh.get("raw", "clean"), container=sh.get("container", "list"), sliced=sh.get("sliced", False), tform=sh.get("tform", "time"), layout=sh["layout"], err=sh["err"], unit=sh["unit"], t_ref=t_ref, seed=case.get("seed", 0),
                            n_surveys=cfg["n_offsets"] + 1, t_ref_scale=("utc" if sh["n"] % 2 else "tcb"), interleave=(not sh["tref"]), mixed_units=bool(sh["tref"]))
    theta = np.atleast_2d(np.array(case["theta"], dtype=float))
    impl = np.array(tj.TheJoker(prior).marginal_ln_likelihood(data, pb.make_samples(theta), in_memory=True))
    th_ref = theta.copy()
    th_ref[:, 4] *= dd["factor"]
    orc = LnLOracle(pb.ref_problem(dd, dec), th_ref)
    v = orc.classify(impl)[0]
    print("impl:", impl[0], "exact:", orc.ref()[0][0], "verdict:", v)
    if v[0] == "violation":
        part.violation(case, v[1], expected=v[2], observed=v[3])


def main():
    chk = core.Check(
        PID, "exploration",
        "full product of prior configurations (poly_trend 1..3 x n_offsets 0..2 x K prior {default, default with cap active, custom "
        "Normal} x prior means {zero, non-zero distinct} x prior velocity unit x period-prior unit; quick: a 24-configuration covering "
        "subset) x data shapes (N in {1,2,3,5,(8)} x time layout x error scale x data unit x t_ref; multi-survey data: half of the "
        "shapes with surveys delivered in different equivalent units, the other half interleaved in time) x theta grid (5 P x 5 e (+2 "
        "finiteness-only) x omega x M0 x 3 jitters, all paths in_memory / object cache / file), each value compared with the closed-form "
        "marginal (long-double Cholesky of B, declared prior). Non-trivial = rows that pass the exact band (a stride-7 sample of them is "
        "hashed); other rows are attributed to an open kernel finding by its defect twin or reported.",
    )
    cfgs = configs(chk.quick)
    shapes = data_shapes(chk.quick)
    items = [(c, shapes, (0,) if (not chk.quick and i % 36 == 0) else ()) for i, c in enumerate(cfgs)]
    chk.bounds = {"configurations": len(cfgs), "data_shapes": len(shapes), "theta_rows": int(len(theta_grid(chk.quick, chk.seed, 1.0)))}
    chk.merge(core.parallel(shard, core.interleave(items, core.NPROC * 2), quick=chk.quick, seed=chk.seed))
    chk.total.extra["distinct_rows_exact_pass"] = chk.total.extra.get("rows_exact_pass", 0)
    chk.assumptions += [
        "reference: B = diag(sigma^2+s^2) + M Lambda M^T factorised directly in long double with an independent Kepler solver",
        "for e > 0.99 only finiteness is demanded (the property's own restriction)",
        "kernel findings K1-K5 are attributed only when the value equals the finding's exact alternative semantics (defect twin) or lies "
        "inside 1000x the measured instability of the kernel's own algebraic route (K5)",
    ]
    return chk.finish(run_case)


def replay(doc):
    part = core.Part()
    run_case(doc["case"], part)
    for v in part.violations:
        print("REPRODUCED:", v["msg"], "\n expected:", v.get("expected"), "\n observed:", v.get("observed"))
    print("violations:", len(part.violations))
    return 1 if part.violations else 0
