"""C10 — seeded runs are reproducible; randomness is confined to the given generator (E3 + E2)."""
import hashlib
import itertools
import os
import random

import numpy as np

from .. import core, seams
from .. import sampler_driver as drv

PID = "C10"
N = 6
OPS = ["mll", "rej_inmem", "rej_file", "rej_int", "iter_inmem", "iter_file", "prior_sample", "prior_sample_lin", "prior_sample_alias"]


def _digest(x):
    """bitwise digest of an output (JokerSamples / array / tuple)"""
    h = hashlib.sha1()

    def feed(v):
        if hasattr(v, "tbl"):
            for name in v.par_names:
                col = v.tbl[name]
                h.update(name.encode())
                h.update(np.ascontiguousarray(np.asarray(getattr(col, "value", col), dtype=float)).tobytes())
        elif isinstance(v, tuple):
            for y in v:
                feed(y)
        else:
            h.update(np.ascontiguousarray(np.asarray(v, dtype=float)).tobytes())

    feed(x)
    return h.hexdigest()[:16]


def _global_state():
    st = np.random.get_state()
    return (hashlib.sha1(st[1].tobytes()).hexdigest(), st[2], st[3], st[4], hashlib.sha1(repr(random.getstate()).encode()).hexdigest())


def apply_op(joker, op, lib_obj, lib_path, data=None):
    if op == "mll":
        return joker.marginal_ln_likelihood(data, lib_path, n_batches=2)
    if op == "rej_inmem":
        return joker.rejection_sample(data, lib_obj, in_memory=True, n_linear_samples=2)
    if op == "rej_file":
        return joker.rejection_sample(data, lib_path, n_batches=3, randomize_prior_order=True, n_linear_samples=2)
    if op == "rej_int":
        return joker.rejection_sample(data, 8, in_memory=True)
    if op == "iter_inmem":
        return joker.iterative_rejection_sample(data, lib_obj, n_requested_samples=2, init_batch_size=2, in_memory=True)
    if op == "iter_file":
        return joker.iterative_rejection_sample(data, lib_obj, n_requested_samples=2, init_batch_size=2, randomize_prior_order=True, n_batches=2)
    if op == "prior_sample":
        return joker.prior.sample(size=3, rng=joker.rng)
    if op == "prior_sample_alias":
        # the generator handed over under the (deprecated, still accepted) keyword random_state
        return joker.prior.sample(size=3, random_state=joker.rng)
    if op == "prior_sample_lin":
        # the other variant of the draw (linear parameters too), with log-probabilities
        return joker.prior.sample(size=2, generate_linear=True, return_logprobs=True, rng=joker.rng)
    raise KeyError(op)


def run_history(hist, seed, gseed, pool_spec=("serial",), pool=None):
    """returns (digests per step, global-state-changed flags per step, exception or None)"""
    np.random.seed(gseed)
    np.random.normal()  # leave a cached Gaussian in the legacy global state (has_gauss = 1): it is part of that state too
    random.seed(gseed)
    rng = np.random.default_rng(seed)
    scratch = seams.fresh_dir("c10")
    p = pool if pool is not None else drv.make_pool(list(pool_spec))
    joker = seams.make_stub_joker(None, rng, pool=p, tempfile_path=scratch)
    lib_obj = seams.stub_library(N)
    lib_path = drv.lib_file(N, False)
    digs, changed = [], []
    fresh = []  # per step: values that must be NEW random draws of that step (name -> list)
    for op in hist:
        g0 = _global_state()
        try:
            out = apply_op(joker, op, lib_obj, lib_path)
        except Exception as e:
            return digs, changed, e
        g1 = _global_state()
        digs.append(_digest(out))
        changed.append(g0 != g1)
        fr = {}
        if op != "mll":
            import astropy.units as u

            if op in ("rej_int", "prior_sample", "prior_sample_lin", "prior_sample_alias"):
                fr["P"] = np.atleast_1d(out["P"].to_value(u.day)).tolist()  # prior draws made by this call
            if "K" in out.par_names:
                fr["K"] = np.atleast_1d(out["K"].to_value(u.km / u.s)).tolist()  # linear draws made by this call
        fresh.append(fr)
    run_history.last_fresh = fresh
    return digs, changed, None


def check_history(case, part):
    hist = case["history"]
    seed = case["seed"]
    a, ca, ea = run_history(hist, seed, 101)
    fresh = getattr(run_history, "last_fresh", [])
    b, cb, eb = run_history(hist, seed, 101)
    c, cc, ec = run_history(hist, seed, 977)
    part.states += 1
    part.transitions += len(hist)
    part.record(case, outcome=(tuple(a),), nontrivial=len(hist) > 1)
    for e in (ea, eb, ec):
        if e is not None:
            part.violation(case, f"history raised {type(e).__name__}: {str(e)[:300]}")
            return
    for k in range(len(hist)):
        if a[k] != b[k]:
            part.violation(dict(case, step=k), f"two runs with equal seeds differ at step {k} ({hist[k]}): output is not a function of the given generator",
                           expected=a[k], observed=b[k])
            return
        if a[k] != c[k]:
            part.violation(dict(case, step=k), f"output of step {k} ({hist[k]}) depends on numpy's / Python's global random state", expected=a[k], observed=c[k])
            return
        if ca[k] or cc[k]:
            part.violation(dict(case, step=k), f"step {k} ({hist[k]}) changed numpy's or Python's global random state")
            return
    # successive calls receive different random streams: a value drawn by one call never re-appears in a later call
    for name in ("P", "K"):
        seen = {}
        for k, fr in enumerate(fresh):
            for v in set(fr.get(name, ())):
                if v in seen:
                    part.violation(dict(case, step=k), f"step {k} ({hist[k]}) repeats a random draw of {name} made by step {seen[v]} ({hist[seen[v]]}) on the same "
                                   "TheJoker: successive calls do not receive different random streams", observed=v)
                    return
            for v in fr.get(name, ()):
                seen[v] = k
    # different seeds must give different random output somewhere (guards against a vacuous digest)
    d, _, ed = run_history(hist, seed + 1, 101)
    if ed is None and d == a and any(op != "mll" for op in hist):
        part.violation(case, "a different seed gave bit-identical outputs: the generator is not the source of randomness", observed=a)


def check_pools(case, part):
    """file-path operations: identical outputs for equal seeds across pools with equal batching"""
    hist = case["history"]
    ref, _, e0 = run_history(hist, case["seed"], 5, ("serial",))
    if e0 is not None:
        part.violation(case, f"raised {type(e0).__name__}: {e0}")
        return
    for spec in case["pools"]:
        out, _, e = run_history(hist, case["seed"], 5, tuple(spec))
        part.states += 1
        part.transitions += len(hist)
        part.record(dict(case, pool=spec), outcome=(tuple(out),), nontrivial=True)
        if e is not None:
            part.violation(dict(case, pool=spec), f"raised {type(e).__name__}: {str(e)[:200]}")
            return
        if out != ref:
            part.violation(dict(case, pool=spec), "equal seeds and equal batching give different outputs on another pool / schedule", expected=ref, observed=out)
            return


def check_streams(case, part):
    """forced collisions: the same accepted row in every batch must get different linear draws; a repeated call too"""
    import astropy.units as u

    nb = case["n_batches"]
    n = case["n"]
    lib = seams.stub_library(1)
    import thejoker as tj

    # library of n identical rows (id 0)
    rep = tj.JokerSamples()
    for name in ("P", "e", "omega", "M0", "s"):
        col = lib[name]
        rep[name] = np.repeat(col.value, n) * (col.unit if hasattr(col, "unit") and col.unit is not None else u.one)
    rng = seams.ScriptedGenerator(case["seed"], uniform_fn=lambda size, k: np.zeros(int(size)))
    pool = drv.make_pool(case["pool"])
    joker = seams.make_stub_joker({0: -1.0}, rng, pool=pool, tempfile_path=seams.fresh_dir("c10s"))
    draws = []
    try:
        for call in range(2):
            if case["path"] == "inmem":
                res = joker.rejection_sample(None, rep, in_memory=True, n_linear_samples=case["n_linear"])
            else:
                res = joker.rejection_sample(None, rep, n_batches=nb, n_linear_samples=case["n_linear"])
            K = np.atleast_1d(res["K"].to_value(u.km / u.s))
            if len(K) != n * case["n_linear"]:
                part.violation(case, "not every (identical, always accepted) row was returned", expected=n * case["n_linear"], observed=len(K))
                return
            draws.append(K)
    except Exception as e:
        part.violation(case, f"raised {type(e).__name__}: {str(e)[:200]}")
        return
    part.record(case, outcome=(len(set(draws[0].tolist())),), nontrivial=nb is not None and nb > 1)
    allK = np.concatenate(draws)
    if len(set(draws[0].tolist())) != len(draws[0]):
        part.violation(case, "linear-parameter draws are repeated across batches / rows within one call (streams not independent)", observed=draws[0])
        return
    if len(set(allK.tolist())) != len(allK):
        part.violation(case, "a repeated call on the same TheJoker repeated linear-parameter draws of the first call", observed=[d.tolist() for d in draws])


def check_bigdraw(case, part):
    """one large request must not repeat draws anywhere inside it (block-wise drawing with a re-used stream)"""
    import astropy.units as u

    prior = seams.get_dummy_prior()
    s = prior.sample(size=case["size"], generate_linear=True, rng=np.random.default_rng(case["seed"]))
    part.record(case, outcome=(len(s),), nontrivial=True)
    if len(s) != case["size"]:
        part.violation(case, "prior.sample returned another number of rows than requested", expected=case["size"], observed=len(s))
        return
    for name in ("P", "e", "K", "v0"):
        v = np.asarray(s[name].value if hasattr(s[name], "value") else s[name])
        if len(np.unique(v)) != len(v):
            part.violation(case, f"draws of {name} are repeated inside one prior.sample(size={case['size']}) request "
                           f"({len(v) - len(np.unique(v))} duplicates): parts of the request share a random stream")
            return
    s2 = prior.sample(size=case["size"], generate_linear=True, rng=np.random.default_rng(case["seed"]))
    if not np.array_equal(s["P"].value, s2["P"].value):
        part.violation(case, "two large requests with equal seeds differ")


def run_case(case, part):
    if case["kind"] == "bigdraw":
        return check_bigdraw(case, part)
    if case["kind"] in ("hashseed", "multipool"):
        print("re-run the whole check: this case is a cross-process comparison")
        return
    {"history": check_history, "pools": check_pools, "streams": check_streams}[case["kind"]](case, part)


def shard(cases):
    part = core.Part()
    for c in cases:
        core.guard(run_case, c, part)
    return part


def multipool(chk):
    """real MultiPool(2): equal seeds -> equal outputs, and equal to the serial pool with the same batching"""
    import schwimmbad

    part = core.Part()
    hists = [["rej_file"], ["iter_file", "rej_file"], ["mll", "rej_file"]] if chk.quick else \
        [["rej_file"], ["iter_file", "rej_file"], ["mll", "rej_file"], ["rej_file", "rej_file", "iter_file"], ["iter_file"]]
    with schwimmbad.MultiPool(processes=2) as pool:
        for h in hists:
            ref, _, e0 = run_history(h, 3, 5, ("serial",))
            a, _, ea = run_history(h, 3, 5, pool=pool)
            b, _, eb = run_history(h, 3, 7, pool=pool)
            case = dict(kind="multipool", history=h)
            part.record(case, outcome=(tuple(a),), nontrivial=True)
            if ea or eb or e0:
                part.violation(case, f"raised on MultiPool: {ea or eb or e0}")
            elif a != b:
                part.violation(case, "two runs with equal seeds on MultiPool(2) differ", expected=a, observed=b)
            elif a != ref:
                part.violation(case, "MultiPool(2) and SerialPool with equal batching and seeds differ", expected=ref, observed=a)
            else:
                part.validated += 1
    return part


def hashseed_conformance(chk):
    """equal seeds must give bit-identical outputs in separate interpreter launches, whatever PYTHONHASHSEED is"""
    import json
    import subprocess
    import sys

    part = core.Part()
    seeds = ["0", "1", "2"] if chk.quick else ["0", "1", "2", "3", "4", "5"]
    procs = []
    for hs in seeds:
        env = dict(os.environ, PYTHONHASHSEED=hs)
        procs.append((hs, subprocess.Popen([sys.executable, "-W", "ignore", "-m", "mc.props.c10_child"], cwd=core.VERIF, env=env,
                                           stdout=subprocess.PIPE, stderr=subprocess.PIPE, text=True)))
    outs = {}
    for hs, p in procs:
        so, se = p.communicate(timeout=600)
        line = [l for l in so.splitlines() if l.startswith("C10CHILD ")]
        if p.returncode != 0 or not line:
            part.extra.setdefault("harness_errors", []).append(f"child PYTHONHASHSEED={hs} failed: {se[-800:]}")
            continue
        outs[hs] = json.loads(line[0][len("C10CHILD "):])
    if outs:
        ref_hs = sorted(outs)[0]
        for hs, o in outs.items():
            case = dict(kind="hashseed", PYTHONHASHSEED=hs, against=ref_hs)
            part.record(case, outcome=o, nontrivial=hs != ref_hs)
            for k, v in o.items():
                if isinstance(v, str) and v.startswith("EXC"):
                    part.violation(case, f"history {k} raised in a child interpreter: {v}")
                elif v != outs[ref_hs][k]:
                    part.violation(dict(case, history=k), f"equal seeds give different outputs for history '{k}' in interpreter launches that differ only in "
                                   "PYTHONHASHSEED (hash-order dependent randomness)", expected=outs[ref_hs][k], observed=v)
                else:
                    part.validated += 1
    return part


def build(quick, seed):
    depth = 2 if quick else 3
    hs = []
    for d in range(1, depth + 1):
        for h in itertools.product(OPS, repeat=d):
            if d == 3 and sum(1 for o in h if o in ("rej_int", "prior_sample")) > 1:
                continue
            hs.append(dict(kind="history", history=list(h), seed=20 + seed))
    pools = []
    specs = [["model", 2, c, rev] for c in (1, 2, 3) for rev in (False, True)] + [["model", 3, None, False], ["model", 5, 1, True]]
    for h in (["rej_file"], ["iter_file"], ["mll"], ["rej_file", "iter_file"], ["iter_file", "rej_file", "rej_file"]):
        pools.append(dict(kind="pools", history=h, seed=7 + seed, pools=specs))
    streams = []
    for path in ("inmem", "file"):
        for n in (2, 4, 6):
            for nb in ([None] if path == "inmem" else [None, 1, 2, n, n + 2]):
                for nl in (1, 2):
                    for pool in ([["serial"]] if path == "inmem" else [["serial"], ["model", 2, 1, True], ["model", 3, 2, False]]):
                        streams.append(dict(kind="streams", path=path, n=n, n_batches=nb, n_linear=nl, pool=pool, seed=seed))
    for size in ((20000,) if quick else (20000, 70001, 270000)):
        streams.append(dict(kind="bigdraw", size=size, seed=3 + seed))
    return hs, pools, streams


def main():
    chk = core.Check(
        PID, "model_checking",
        "all call histories of depth<=2 (quick) / 3 over 9 operations {marginal_ln_likelihood (file), rejection (in memory), rejection "
        "(file, batches, randomised order), rejection with an integer prior-sample count, iterative (in memory / file), prior.sample(rng)} "
        "on ONE TheJoker (stub kernel, real prior): each history is run twice with equal seeds and once more with numpy's and Python's "
        "global generators seeded differently; outputs are compared bitwise per step and the global states before/after every step; a "
        "different seed must change the output. File-path operations x 8 modelled pool schedules and real MultiPool(2): bitwise equal to "
        "the serial pool. Forced-collision stream test: n identical always-accepted rows x batching x pools, two calls on one TheJoker - "
        "no linear draw may repeat; one large prior.sample request (20000; thorough also 70001, 270000 rows) must not repeat a draw inside itself. Separate interpreter launches with PYTHONHASHSEED in {0,1,2,(3,4,5)} must give identical digests and "
        "column order. Non-trivial: history longer than one step / more than one batch.",
    )
    hs, pools, streams = build(chk.quick, chk.seed)
    chk.bounds = {"history_depth": 2 if chk.quick else 3, "histories": len(hs), "pool_cases": len(pools), "stream_cases": len(streams)}
    chk.merge(core.parallel(shard, core.interleave(hs, core.NPROC * 2)))
    chk.merge(core.parallel(shard, core.interleave(pools, core.NPROC)))
    chk.merge(core.parallel(shard, core.interleave(streams[::-1], core.NPROC)))
    chk.merge(multipool(chk))
    chk.merge(hashseed_conformance(chk))
    chk.assumptions += ["stub kernel whose likelihood is a fixed function of the row; pymc's pm.draw(random_seed=Generator) is trusted to be a function of the generator state",
                        "no state merging: every history is executed on fresh objects"]
    return chk.finish(run_case)


def replay(doc):
    part = core.Part()
    run_case(doc["case"], part)
    for v in part.violations:
        print("REPRODUCED:", v["msg"], "\n expected:", v.get("expected"), "\n observed:", v.get("observed"))
    print("violations:", len(part.violations))
    return 1 if part.violations else 0
