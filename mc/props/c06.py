"""C06 — reported ln_prior / ln_likelihood stay attached to their own sample (E2 on the real samplers)."""
import itertools

import numpy as np

from .. import core, seams
from .. import sampler_driver as drv

PID = "C06"


def profile(N, rot):
    # distinct likelihood per row, maximum at row (-rot) mod N
    return [-0.5 * ((i + rot) % N) - (0.03125 * i if ((i + rot) % N) else 0.0) for i in range(N)]


def run_case(case, part):
    import astropy.units as u

    N = case["N"]
    lls = profile(N, case["rot"])
    if case.get("ll_letters"):
        # explicit profile, incl. 'u' = finite but hopeless (acceptance ratio underflows to 0)
        lls = [drv.LL_ALPHABET[c] - 0.001 * i for i, c in enumerate(case["ll_letters"])]
    if case.get("flat"):
        # large-size probe: a nearly flat profile (distinct values, every acceptance ratio far from 0)
        lls = [-1e-4 * ((i + case["rot"]) % N) for i in range(N)]
    o = dict(case["opts"])
    acc_codes = case["acc"]  # per row id: 'a' accept / 'r' reject (max row always accepted)
    if acc_codes == "all":
        acc_codes = "a" * N
    perm = case.get("perm")
    if perm == "rotate7":
        perm = [(7 * i + 3) % N for i in range(N)]  # N not a multiple of 7: a permutation

    def plan(k, ids, ll_so_far):
        a = np.array(ll_so_far)
        r = np.exp(a - a.max())
        return [drv.u_for("z" if r[j] == 1.0 else acc_codes[i], r[j]) for j, i in enumerate(ids)]

    run = drv.call_sampler(case["sampler"], N, lls, case["path"], o, plan, perm=perm, pool_spec=case.get("pool"), lib_dtype=case.get("dtype"),
                           with_lnprior=True)
    if run.exc is not None:
        part.record(case, outcome=("exc", type(run.exc).__name__))
        if case.get("may_raise") and isinstance(run.exc, (ValueError, RuntimeError)):
            return  # iterative: library too small for the request etc. - not a logprob matter
        part.violation(case, f"{case['sampler']} with return_logprobs raised {type(run.exc).__name__}: {str(run.exc)[:300]}")
        return
    res = run.result
    probs = list(run.problems)
    ids = drv.check_rows_unaltered(res, probs)
    part.record(case, outcome=(tuple(ids),), nontrivial=len(ids) > 0 and ids != list(range(len(ids))))
    if probs:
        part.violation(case, probs[0])
        return
    for col in ("ln_prior", "ln_likelihood"):
        if col not in res.par_names:
            part.violation(case, f"return_logprobs=True but no '{col}' column", observed=res.par_names)
            return
        arr = np.asarray(res.tbl[col])
        if arr.dtype.kind != "f" or arr.dtype.names is not None or arr.ndim != 1 or len(arr) != len(ids):
            part.violation(case, f"'{col}' is not a plain floating-point column with one scalar per returned row",
                           expected=("float64", len(ids)), observed=(str(arr.dtype)[:200], arr.shape))
            return
    lp = np.asarray(res.tbl["ln_prior"], dtype=float)
    ll = np.asarray(res.tbl["ln_likelihood"], dtype=float)
    for k, i in enumerate(ids):
        if lp[k] != -(1000.0 + i):
            part.violation(case, f"returned row {k} is library row {i} but carries ln_prior {lp[k]} (belongs to row {int(round(-lp[k] - 1000))})",
                           expected=-(1000.0 + i), observed=float(lp[k]))
            return
        if ll[k] != lls[i]:
            part.violation(case, f"returned row {k} is library row {i} but carries ln_likelihood {ll[k]}", expected=lls[i], observed=float(ll[k]))
            return
    if o.get("return_all_logprobs"):
        ev = run.u_vectors[-1][0] if run.u_vectors else []
        want = [lls[i] for i in ev]
        if run.all_ll is None or not np.array_equal(np.asarray(run.all_ll, dtype=float), np.asarray(want)):
            part.violation(case, "return_all_logprobs: second return value != ln-likelihood of every evaluated sample in evaluation order",
                           expected=want, observed=run.all_ll)


def shard(cases):
    part = core.Part()
    for c in cases:
        core.guard(run_case, c, part)
    return part


def build_cases(quick):
    inm, fil = [], []
    for N in (1, 2, 3, 4):
        for rot in range(N):
            mx = (-rot) % N
            for acc in itertools.product("ar", repeat=N):
                if acc[mx] != "a":
                    continue
                for mp in (None, 1, 2):
                    for nlin in (1, 2):
                        for alp in (False, True):
                            inm.append(dict(kind="c06", sampler="rejection", N=N, rot=rot, acc=list(acc), path="inmem",
                                            opts=dict(return_logprobs=True, max_posterior_samples=mp, n_linear_samples=nlin,
                                                      return_all_logprobs=alp)))
                            if nlin == 1 and not alp:
                                # the file-path options given on the in-memory path (documented as unused there): whatever rows
                                # come back must still carry their own values
                                inm.append(dict(kind="c06", sampler="rejection", N=N, rot=rot, acc=list(acc), path="inmem",
                                                opts=dict(return_logprobs=True, max_posterior_samples=mp, n_linear_samples=1,
                                                          randomize_prior_order=True, n_prior_samples=N if mp is None else None, n_batches=2)))
                # iterative, in memory and on the file paths
                for nreq in (1, 2):
                    for ibs in (1, 2, N):
                        if ibs > N:
                            continue
                        for nlin in (1, 2):
                            for path in ("inmem", "obj", "file"):
                                if path != "inmem" and quick and (N == 4 or nlin == 2):
                                    continue
                                perms = [None]
                                if path != "inmem":
                                    perms = [None] + ([list(range(N))[::-1]] if N > 1 else [])
                                for perm in perms:
                                    # (a budget below the library size: the log-probabilities are cut together with the samples)
                                    for mps in ((None, N - 1) if (N > 1 and nlin == 1) else (None,)):
                                        (inm if path == "inmem" else fil).append(
                                            dict(kind="c06", sampler="iterative", N=N, rot=rot, acc=list(acc), path=path, perm=perm, may_raise=True,
                                                 opts=dict(return_logprobs=True, n_requested_samples=nreq, init_batch_size=ibs, n_linear_samples=nlin,
                                                           growth_factor=2, **({"max_prior_samples": mps} if mps is not None else {}),
                                                           **({"randomize_prior_order": perm is not None} if path != "inmem" else {}))))
                                        if path == "inmem" and mps is None and N > 1:
                                            # the random-order option given on the in-memory path: whatever rows come back must carry their own values
                                            inm.append(dict(kind="c06", sampler="iterative", N=N, rot=rot, acc=list(acc), path="inmem", perm=list(range(N))[::-1], may_raise=True,
                                                            opts=dict(return_logprobs=True, n_requested_samples=nreq, init_batch_size=ibs, n_linear_samples=nlin,
                                                                      growth_factor=2, randomize_prior_order=True)))
                if N == 4 and quick:
                    continue
                allperms = [list(p) for p in itertools.permutations(range(N))][1:]
                perms = [None] + (allperms if N <= 3 else allperms[::5])
                for path in ("obj", "file"):
                    for perm in perms:
                        for nb, pool in ((None, ("serial",)), (1, ("serial",)), (2, ("serial",)), (N + 1, ("model", 2, 1, True))):
                            for mp in (None, 1, 2):
                                for npri in (None, N - 1) if N > 1 else (None,):
                                    nlin = 2 if (mp is None and nb in (None, 2)) else 1
                                    fil.append(dict(kind="c06", sampler="rejection", N=N, rot=rot, acc=list(acc), path=path, perm=perm,
                                                    pool=list(pool),
                                                    opts=dict(return_logprobs=True, max_posterior_samples=mp, n_prior_samples=npri,
                                                              n_linear_samples=nlin, n_batches=nb, randomize_prior_order=perm is not None,
                                                              return_all_logprobs=(nb == 2))))
    # large-size probes (thresholds inside the samplers: chunked reads, whole-column fast paths): more than 1024 / 2048 surviving rows
    for N in (1100, 2063):
        for path in ("obj", "file"):
            for perm in (None, "rotate7"):
                for nb in (None, 3):
                    fil.append(dict(kind="c06", sampler="rejection", N=N, rot=5, acc="all", flat=True, path=path, perm=perm, pool=["serial"],
                                    opts=dict(return_logprobs=True, n_batches=nb, randomize_prior_order=perm is not None, n_linear_samples=1)))
        inm.append(dict(kind="c06", sampler="rejection", N=N, rot=5, acc="all", flat=True, path="inmem", opts=dict(return_logprobs=True, n_linear_samples=1)))
        fil.append(dict(kind="c06", sampler="iterative", N=N, rot=5, acc="all", flat=True, path="file", perm="rotate7", may_raise=True,
                        opts=dict(return_logprobs=True, n_requested_samples=N - 10, init_batch_size=600, n_linear_samples=1, growth_factor=2, randomize_prior_order=True)))
    # hopeless-but-finite rows between the good ones, several iterations without growth
    for letters in ("u0h", "uu0", "u0uh", "0uhu", "uu0h"):
        N_ = len(letters)
        for path in ("inmem", "obj", "file"):
            for nreq, gf in ((2, 1), (1, 1), (2, 2)):
                (inm if path == "inmem" else fil).append(
                    dict(kind="c06", sampler="iterative", N=N_, rot=0, acc=["r" if c == "u" else "a" for c in letters], ll_letters=letters, path=path, may_raise=True,
                         opts=dict(return_logprobs=True, n_requested_samples=nreq, init_batch_size=None if gf == 1 else 1, growth_factor=gf, n_linear_samples=1)))
    # a library stored in single precision, larger than any plausible block size and not a multiple of a power of two
    for N, path in ((20011, "inmem"), (20011, "obj"), (3001, "inmem")):
        (inm if path == "inmem" else fil).append(dict(kind="c06", sampler="rejection", N=N, rot=5, acc="all", flat=True, path=path, dtype="float32",
                                                        **({"pool": ["serial"]} if path != "inmem" else {}),
                                                        opts=dict(return_logprobs=True, n_linear_samples=1, return_all_logprobs=True)))
    return inm, fil


def main():
    chk = core.Check(
        PID, "model_checking",
        "real rejection_sample / iterative_rejection_sample with return_logprobs=True, stub kernel with a distinct likelihood per row "
        "and ln_prior_i = -(1000+i): N<=4, every position of the maximum, EVERY acceptance subset containing the maximum (scripted "
        "uniforms), x max_posterior_samples x n_linear_samples x return_all_logprobs (in memory) and x path {object cache, user file} x "
        "n_batches x pool x randomize_prior_order with every permutation (N<=3; a subset for N=4) x n_prior_samples; iterative sampler "
        "x n_requested x init_batch_size. Non-trivial: returned ids are not the identity prefix.",
    )
    inm, fil = build_cases(chk.quick)
    chk.bounds = {"in_memory_executions": len(inm), "file_path_executions": len(fil)}
    chk.merge(core.parallel(shard, core.interleave(inm, core.NPROC * 2)))
    chk.merge(core.parallel(shard, core.interleave(fil, core.NPROC * 2)))
    chk.total.states = chk.total.evals
    chk.total.transitions = chk.total.evals
    chk.total.validated = chk.total.evals
    chk.assumptions += ["stub kernel; row identity is encoded in P; an exception from a documented option combination counts as a failure to deliver the columns",
                        "for the iterative sampler a ValueError/RuntimeError (library too small, no sample accepted) is not a log-prob matter and is left to C14"]
    return chk.finish(run_case)


def replay(doc):
    part = core.Part()
    run_case(doc["case"], part)
    for v in part.violations:
        print("REPRODUCED:", v["msg"], "\n expected:", v.get("expected"), "\n observed:", v.get("observed"))
    print("violations:", len(part.violations))
    return 1 if part.violations else 0
