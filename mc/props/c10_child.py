"""Child interpreter for C10: prints the digests of a few seeded histories as JSON (run under different PYTHONHASHSEED)."""
import json
import os
import sys


def main():
    from .. import build

    scratch = os.environ.get("VERIF_SCRATCH")
    build.bind()
    from . import c10
    import tempfile

    tempfile.tempdir = scratch
    out = {}
    for h in (["prior_sample"], ["rej_int"], ["rej_file", "iter_file"], ["prior_sample", "rej_inmem"]):
        d, _, e = c10.run_history(h, 31, 5)
        out["/".join(h)] = d if e is None else "EXC " + repr(e)[:200]
    # column order of prior.sample is part of the output too
    import numpy as np
    from .. import seams

    s = seams.get_dummy_prior().sample(size=2, rng=np.random.default_rng(9), generate_linear=True)
    out["columns"] = list(s.par_names)
    print("C10CHILD " + json.dumps(out))


if __name__ == "__main__":
    main()
