"""C14 — iterative rejection sampling respects request, budget and acceptance rule (E2 ChoiceExplorer)."""
import itertools

import numpy as np

from .. import core, seams
from .. import sampler_driver as drv

PID = "C14"


def one_execution(cfg, chooser):
    """Run the real iterative sampler once; uniform answers come from the chooser:
    per (iteration, evaluated sample): 0 = reject unless it is the maximum (u = ratio exactly), 1 = accept (u just below ratio)."""
    N = cfg["N"]
    lls = [drv.LL_ALPHABET[c] for c in cfg["ll"]]

    def plan(k, ids, ll_so_far):
        a = np.array(ll_so_far, dtype=float)
        with np.errstate(all="ignore"):
            r = np.exp(a - a.max())
        u = []
        for j, i in enumerate(ids):
            if not np.isfinite(r[j]) or r[j] == 0.0:
                u.append(0.5)
            elif r[j] == 1.0:
                u.append(0.0)
            else:
                c = chooser.choose(2, f"u[it{k}][row{i}]")
                u.append(seams.nextafter_down(r[j]) if c == 1 else r[j])
        return u

    return drv.call_sampler("iterative", N, lls, cfg["path"], dict(cfg["opts"]), plan, perm=cfg.get("perm"), pool_spec=cfg.get("pool"))


def monitor(cfg, run, choices, part):
    """ref.iterative.Monitor: the C14 invariants on one execution trace."""
    import thejoker as tj

    N = cfg["N"]
    o = cfg["opts"]
    lls = [drv.LL_ALPHABET[c] for c in cfg["ll"]]
    nreq, nlin = o["n_requested_samples"], o.get("n_linear_samples", 1)
    budget = N if o.get("max_prior_samples") is None else min(N, o["max_prior_samples"])
    case = dict(kind="exec", cfg=cfg, choices=list(choices))
    evaluated = [i for e in run.call_log if e[0] == "ll" for i in e[1]]
    # 1/2: never the same row twice, never beyond the budget
    if len(set(evaluated)) != len(evaluated):
        part.violation(case, "a library row was evaluated twice", observed=evaluated)
        return
    if len(evaluated) > budget:
        part.violation(case, f"evaluated {len(evaluated)} prior samples with a budget of {budget} (max_prior_samples={o.get('max_prior_samples')}, library {N})",
                       expected=budget, observed=evaluated)
        return
    init = o.get("init_batch_size")
    n0 = o.get("growth_factor", 128) * nreq if init is None else init
    if run.exc is not None:
        finite = all(np.isfinite(lls[i]) for i in evaluated)
        if n0 > budget:
            if evaluated:
                part.violation(case, "a library too small for the request must raise before evaluating anything", observed=evaluated)
            return  # raising is the required outcome
        if finite and isinstance(run.exc, Exception):
            part.violation(case, f"valid request on finite likelihoods raised {type(run.exc).__name__}: {str(run.exc)[:200]}")
        return
    res = run.result
    # 3: never anything but a JokerSamples
    if not isinstance(res, tj.JokerSamples):
        part.violation(case, f"the call returned a {type(res).__name__} instead of raising or returning a JokerSamples", observed=repr(res)[:200])
        return
    if n0 > budget:
        part.violation(case, f"library/budget ({budget}) too small for the first batch ({n0}) but the call did not raise")
        return
    probs = list(run.problems)
    ids = drv.check_rows_unaltered(res, probs)
    if probs:
        part.violation(case, probs[0], observed=ids)
        return
    if not run.u_vectors:
        part.violation(case, "no uniform vector was drawn from the sampler's generator")
        return
    last_ids, last_u = run.u_vectors[-1]
    if sorted(last_ids) != sorted(evaluated):
        part.violation(case, "the last acceptance test did not cover exactly the evaluated samples", expected=evaluated, observed=last_ids)
        return
    a = np.array([lls[i] for i in last_ids])
    if not np.all(np.isfinite(a)):
        # non-finite likelihoods among the evaluated samples: -inf next to a finite maximum is a legal ratio of 0; NaN is a failure
        if np.any(np.isnan(a)):
            part.violation(case, "NaN likelihood among the evaluated samples but the call returned normally", observed=ids)
            return
    r = np.exp(a - a.max())
    acc = [i for k, i in enumerate(last_ids) if r[k] > last_u[k]][:nreq]
    want = [i for i in acc for _ in range(nlin)]
    if ids != want:
        part.violation(case, "returned rows != first n_requested samples accepted (exp(ll-max) > u under the last uniform vector, max over all "
                       "evaluated), each n_linear times", expected=want, observed=ids)
        return
    if len(set(ids)) > nreq:
        part.violation(case, "more than n_requested nonlinear samples returned", observed=ids)


def explore_cfg(cfg, bound, part, cap=4000):
    n = 0
    outcomes = set()
    for ch, run in seams.explore(lambda c: one_execution(cfg, c), bound=bound, max_execs=cap):
        if ch is None:
            part.extra.setdefault("caps", []).append(dict(cfg=cfg, left=run[1]))
            break
        n += 1
        monitor(cfg, run, ch.choices, part)
        if run.exc is not None:
            out = ("exc", type(run.exc).__name__)
        elif hasattr(run.result, "par_names"):
            out = tuple(drv.returned_rows(run.result)[0])
        else:
            out = ("obj", type(run.result).__name__)
        outcomes.add(out)
        part.transitions += len(ch.choices)
        part.record(dict(cfg=cfg, choices=ch.choices), outcome=(out, len(ch.choices)), nontrivial=any(ch.choices))
    part.states += n
    part.add("configurations")
    return n


def shard(items):
    part = core.Part()
    for cfg, bound in items:
        explore_cfg(cfg, bound, part)
    return part


def run_case(case, part):
    cfg = case["cfg"]
    ch = seams.Chooser(case["choices"])
    run = one_execution(cfg, ch)
    monitor(cfg, run, ch.choices, part)


def build(quick):
    items = []
    Ns = (1, 2, 3, 4) if quick else (1, 2, 3, 4, 5, 6)
    for N in Ns:
        profs = list(itertools.product("0h", repeat=N))
        if N >= 5:
            profs = [p for p in profs if p.count("0") in (1, 2)][:: 2 if N == 5 else 5]
        if N in (2, 3):
            # profiles with hopeless-but-finite rows (ratio underflows to 0) ahead of / between the good ones
            profs += [p for p in itertools.product("u0h", repeat=N) if "u" in p and any(c in "0h" for c in p)]
        bad = []
        for pos in range(N):
            for kind in "ni":
                p = ["0" if j % 2 == 0 else "h" for j in range(N)]
                p[pos] = kind
                if any(c in "0h" for c in p):
                    bad.append(tuple(p))
        for prof in profs + (bad if N <= 4 else []):
            isbad = any(c in "ni" for c in prof)
            for nreq in (1, 2, 3):
                if nreq > N + 1:
                    continue
                inits = [(None, 1), (None, 2), (None, 128), (1, 128), (2, 128), (N, 128), (N + 1, 128)]
                for ibs, gf in inits:
                    if ibs is not None and ibs > N + 1:
                        continue
                    for mps in (None, 1, N - 1, N, N + 1):
                        if mps is not None and mps < 1:
                            continue
                        for nlin in (1, 2):
                            if (isbad or N >= 4) and (nlin == 2 or mps in (1, N + 1)):
                                continue
                            if N >= 5 and (gf == 128 and ibs is None or nreq == 3 and ibs == N):
                                continue
                            base = dict(n_requested_samples=nreq, init_batch_size=ibs, growth_factor=gf, max_prior_samples=mps,
                                        n_linear_samples=nlin)
                            bound = (2 if quick else 5) if N >= 3 else None
                            if N >= 5:
                                bound = 3
                            items.append((dict(N=N, ll=list(prof), path="inmem", opts=base), bound))
                            if 2 <= N <= 3 and nlin == 1 and mps is None and not isbad:
                                # the random-order option given on the in-memory path
                                items.append((dict(N=N, ll=list(prof), path="inmem", opts=dict(base, randomize_prior_order=True)), bound))
                            # file paths: a sub-product (each execution costs ~30 ms)
                            if N <= (3 if quick else 4) and nlin == 1 and (not isbad or N <= 2) and (mps in (None, N - 1, N) or (mps == N + 1 and ibs == N + 1)):
                                for path in ("obj", "file"):
                                    if quick and path == "obj" and N == 3:
                                        continue
                                    perms = [None] + ([list(range(N))[::-1]] if N > 1 else []) + ([[1, 2, 0]] if N == 3 else [])
                                    for perm in perms:
                                        for pool in ([("serial",)] if quick or N > 3 else [("serial",), ("model", 2, 1, True)]):
                                            fo = dict(base, randomize_prior_order=perm is not None, n_batches=(2 if perm else None))
                                            items.append((dict(N=N, ll=list(prof), path=path, perm=perm, pool=list(pool), opts=fo),
                                                          (1 if quick else 3) if N >= 3 else None))
    return items


def main():
    chk = core.Check(
        PID, "model_checking",
        "stateless exploration (E2) of the real iterative_rejection_sample under a scripted environment: per configuration "
        "(library N<=4 quick / 6, likelihood profile over {0, ln 1/2} plus NaN/-inf failure profiles, n_requested 1..3, init_batch_size, "
        "growth_factor, max_prior_samples {None,1,N-1,N,N+1}, n_linear, path {in-memory, object cache, user file}, randomize "
        "permutations, pool) every sequence of per-(iteration, evaluated sample) uniform answers {reject-unless-maximum (u = ratio), "
        "accept (u = ratio - 1ulp)} up to the stated deviation bound (unbounded for N<=2) is executed and checked by the trace monitor. "
        "states = executions, transitions = environment answers consumed. Non-trivial: at least one non-default answer.",
    )
    items = build(chk.quick)
    chk.bounds = {"configurations": len(items), "deviation_bound": "None(N<=2) / 2 (quick) or 5 (thorough) in memory; 1 or 3 on file paths; 3 for N>=5",
                  "per_configuration_cap": 4000}
    chk.merge(core.parallel(shard, core.interleave(items, core.NPROC * 4)))
    if chk.total.extra.get("caps"):
        chk.caps.append(f"{len(chk.total.extra['caps'])} configuration(s) hit the 4000-execution cap")
    chk.total.validated = chk.total.states
    chk.assumptions += [
        "batch sizes are not fixed by the property and are not predicted; the monitor checks invariants of the observed trace",
        "'library too small' is demanded only in the unambiguous case: the first batch (init_batch_size or growth_factor*n_requested) exceeds the budget",
        "a request that can never be met (n_requested > library) may return fewer rows",
        "-inf likelihood next to a finite one may be treated either as ratio 0 or as a failure (raise); NaN must raise",
    ]
    return chk.finish(run_case)


def replay(doc):
    part = core.Part()
    run_case(doc["case"], part)
    for v in part.violations:
        print("REPRODUCED:", v["msg"], "\n expected:", v.get("expected"), "\n observed:", v.get("observed"))
    print("violations:", len(part.violations))
    return 1 if part.violations else 0
