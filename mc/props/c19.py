"""C19 — time-sampling diagnostics equal their definitions (E1)."""
import itertools
from fractions import Fraction

import numpy as np

from .. import core

PID = "C19"
L = 7  # lattice points per cycle (coprime to every bin count used)
T0 = 58000.0


def _data(slots, P, order=None, mirror=False):
    import astropy.units as u
    from astropy.time import Time
    from thejoker import RVData

    slots = list(slots)
    if order is not None:
        slots = [slots[i] for i in order]
    tt = np.array([T0 + (c + Fraction(k, L)) * P for c, k in slots], dtype=float)
    if mirror:
        tt = 2 * T0 + 10 * P - tt
    rv = np.arange(len(tt), dtype=float) * u.km / u.s
    err = np.ones(len(tt)) * u.km / u.s
    return RVData(Time(tt, format="mjd", scale="tcb"), rv, err)


def _sample(P):
    import astropy.units as u
    from thejoker import JokerSamples

    s = JokerSamples()
    s["P"] = [P] * u.day
    return s


def ref_phases(slots, mirror=False):
    """Exact phases (Fractions) relative to the earliest observation."""
    pos = [c * L + k for c, k in slots]
    if mirror:
        pos = [-p for p in pos]
    p0 = min(pos)
    return [Fraction((p - p0) % L, L) for p in pos], Fraction(max(pos) - min(pos), L)


def ref_max_gap(phases):
    ph = sorted(set(phases))
    if len(ph) == 1:
        return Fraction(1)
    gaps = [b - a for a, b in zip(ph[:-1], ph[1:])] + [ph[0] + 1 - ph[-1]]
    return max(gaps)


def ref_coverage(phases, n_bins, zero_last=False):
    occ = set()
    for i, p in enumerate(phases):
        b = int(p * n_bins)  # floor; p < 1
        if zero_last and p == 0 and i in ref_coverage.nonref:
            b = n_bins - 1
        occ.add(b)
    return len(occ) / n_bins


ref_coverage.nonref = set()


def check_diag(case, part):
    from thejoker import samples_analysis as sa

    slots = [tuple(s) for s in case["slots"]]
    P = case["P"]
    phases, base = ref_phases(slots)
    samp = _sample(P)
    want_gap = float(ref_max_gap(phases))
    want_span = float(base)  # baseline / P in cycles
    orders = case["orders"]
    obs = []
    for order in orders:
        d = _data(slots, P, order=order)
        try:
            gap = float(np.squeeze(sa.max_phase_gap(samp, d)))
            span = float(np.squeeze(sa.periods_spanned(samp, d)))
            covs = {nb: float(np.squeeze(sa.phase_coverage(samp, d, n_bins=nb))) for nb in case["bins"]}
        except Exception as e:
            part.violation(case, f"diagnostic raised {type(e).__name__}: {e}")
            return
        obs.append((gap, span, covs))
        if abs(gap - want_gap) > 1e-7:
            part.violation(dict(case, order=order), "max_phase_gap != largest empty arc on the phase circle (incl. the arc across 1->0)",
                           expected=want_gap, observed=gap)
            return
        if abs(span - want_span) > 1e-7 * max(1, want_span):
            part.violation(dict(case, order=order), "periods_spanned != baseline / P", expected=want_span, observed=span)
            return
        # points that fall exactly on the reference phase in a later cycle may round to either side of 0/1
        pos = [c * L + k for c, k in slots]
        p0 = min(pos)
        ref_coverage.nonref = {i for i, p in enumerate(pos) if p != p0}
        for nb in case["bins"]:
            w1 = ref_coverage(phases, nb)
            w2 = ref_coverage(phases, nb, zero_last=True)
            if abs(covs[nb] - w1) > 1e-12 and abs(covs[nb] - w2) > 1e-12:
                part.violation(dict(case, order=order, n_bins=nb), "phase_coverage != occupied bins / n_bins",
                               expected=sorted({w1, w2}), observed=covs[nb])
                return
    # order independence is implied by agreement of every order with the same expected value; time reversal:
    dm = _data(slots, P, mirror=True)
    gm = float(np.squeeze(sa.max_phase_gap(samp, dm)))
    if abs(gm - want_gap) > 1e-7:
        part.violation(dict(case, mirror=True), "max_phase_gap changes under time reversal of the observing pattern",
                       expected=want_gap, observed=gm)
    # non-trivial: the wrap-around arc is the strictly largest one
    ph = sorted(set(phases))
    wrap = ph[0] + 1 - ph[-1]
    inner = max([b - a for a, b in zip(ph[:-1], ph[1:])], default=Fraction(0))
    part.record(case, outcome=(round(want_gap, 9), want_span, tuple(sorted(obs[0][2].items()))), nontrivial=wrap > inner)


def check_map(case, part):
    import astropy.units as u
    from thejoker import JokerSamples
    from thejoker.samples_analysis import MAP_sample

    lp, ll = case["ln_prior"], case["ln_like"]
    n = len(lp)
    s = JokerSamples()
    s["P"] = (np.arange(n) + 2.0) * u.day
    s["e"] = np.arange(n) / 10.0
    s["ln_prior"] = np.array(lp, dtype=float)
    s["ln_likelihood"] = np.array(ll, dtype=float)
    tot = np.array(lp, dtype=float) + np.array(ll, dtype=float)
    try:
        m, idx = MAP_sample(s, return_index=True)
        m2 = MAP_sample(s)
    except Exception as e:
        part.violation(case, f"MAP_sample raised {type(e).__name__}: {e}")
        return
    idx = int(idx)
    part.record(case, outcome=(idx,), nontrivial=(np.argmax(tot) != 0 and len(set(tot.tolist())) > 1))
    if tot[idx] != tot.max():
        part.violation(case, "return_index does not point at a maximiser of ln_prior+ln_likelihood", expected=int(np.argmax(tot)), observed=idx)
        return
    for mm in (m, m2):
        Pm = float(np.atleast_1d(mm["P"].to_value(u.day))[0])
        j = int(round(Pm - 2.0))
        if not (0 <= j < n) or tot[j] != tot.max():
            part.violation(case, "returned row does not attain the maximum", expected=float(tot.max()), observed=Pm)
            return
        if float(np.atleast_1d(mm["ln_prior"])[0]) != lp[j] or float(np.atleast_1d(mm["ln_likelihood"])[0]) != ll[j]:
            part.violation(case, "returned row's columns are not those of one table row")
            return
    if float(np.atleast_1d(m["P"].to_value(u.day))[0]) != idx + 2.0:
        part.violation(case, "returned row is not the row at the returned index", expected=idx, observed=float(m["P"].value[0]) - 2)


def run_case(case, part):
    if case["kind"] == "diag":
        check_diag(case, part)
    else:
        check_map(case, part)


def shard(cases):
    part = core.Part()
    for c in cases:
        run_case(c, part)
    return part


def build_cases(quick, seed):
    lattice = [(c, k) for c in (0, 2) for k in range(L)]
    kmax = 4 if quick else 5
    # periods: seed perturbs the numeric value only (structure identical)
    j = core.seeded_jitter(seed, "c19")
    periods = [1.0, 3.0 + 0.25 * round(4 * j) / 4, 10.5]
    bins = [4, 10, 12]
    cases = []
    for r in range(1, kmax + 1):
        for sub in itertools.combinations(lattice, r):
            if r <= 3:
                orders = [list(p) for p in itertools.permutations(range(r))]
            else:
                orders = [list(range(r)), list(range(r))[::-1], list(range(1, r)) + [0]]
            for P in periods:
                cases.append(dict(kind="diag", slots=[list(s) for s in sub], P=P, bins=bins, orders=orders))
    vals = [(-2.0, -1.0, 0.0)] * 2
    maps = []
    pairs = list(itertools.product(*vals))
    for n in range(1, (4 if quick else 5)):
        for rows in itertools.product(pairs, repeat=n):
            maps.append(dict(kind="map", ln_prior=[r[0] for r in rows], ln_like=[r[1] for r in rows]))
    return cases, maps


def main():
    chk = core.Check(
        PID, "exploration",
        "all subsets (size<=4 quick / 5 thorough) of a 7-per-cycle phase lattice over cycles {0,2} x 3 periods x 3 bin "
        "counts x input orders (all permutations for size<=3) + time-reversed pattern, vs exact rational definitions; all "
        "MAP tables with N<=3 (quick) / 4 rows over {-2,-1,0}^2 per row. Non-trivial (diag): the arc across phase 1->0 is "
        "strictly the largest; (MAP): the maximiser is not row 0 and sums are not all equal.",
    )
    cases, maps = build_cases(chk.quick, chk.seed)
    chk.bounds = {"diag_cases": len(cases), "map_tables": len(maps)}
    chk.merge(core.parallel(shard, core.interleave(cases, core.NPROC)))
    chk.merge(core.parallel(shard, core.interleave(maps, core.NPROC)))
    chk.assumptions += ["astropy Time arithmetic; an observation exactly one whole cycle after the reference may land in the first or last bin (rounding)"]
    return chk.finish()


def replay(doc):
    part = core.Part()
    run_case(doc["case"], part)
    for v in part.violations:
        print("REPRODUCED:", v["msg"], "\n expected:", v.get("expected"), "\n observed:", v.get("observed"))
    print("violations:", len(part.violations))
    return 1 if part.violations else 0
