"""C19 — time-sampling diagnostics equal their definitions (E1)."""
import itertools
from fractions import Fraction

import numpy as np

from .. import core

PID = "C19"
L = 7  # lattice points per cycle (coprime to every bin count used)
T0 = 58000.0


def _tref_time(tref, P):
    from astropy.time import Time

    if tref is None:
        return None
    c, k = tref
    return Time(float(T0 + (c + Fraction(k, L)) * P), format="mjd", scale="tcb")


def _data(slots, P, order=None, mirror=False, tref=None, sort=True, dirty=False, tarray=False):
    import astropy.units as u
    from astropy.time import Time
    from thejoker import RVData

    slots = list(slots)
    if order is not None:
        slots = [slots[i] for i in order]
    tt = np.array([T0 + (c + Fraction(k, L)) * P for c, k in slots], dtype=float)
    if mirror:
        tt = 2 * T0 + 10 * P - tt
    rv = np.arange(len(tt), dtype=float) * u.km / u.s
    err = np.ones(len(tt)) * u.km / u.s
    if dirty:
        # raw input with unusable rows before the first and after the last usable epoch (NaN velocity / infinite error): the
        # diagnostics are those of the observations the object HOLDS
        tt = np.concatenate([[T0 - 3.3 * P], tt, [T0 + 50.7 * P]])
        rv = np.concatenate([[np.nan], rv.value, [1.0]]) * u.km / u.s
        err = np.concatenate([[1.0], err.value, [np.inf]]) * u.km / u.s
    kw = {}
    if tref is not None:
        kw["t_ref"] = _tref_time(tref, P)
    if not sort:
        kw["sort"] = False
    if tarray:
        # epochs handed over as a plain float64 array of BMJD (documented form) instead of an astropy Time
        return RVData(np.array(tt, dtype=np.float64), rv, err, **kw)
    return RVData(Time(tt, format="mjd", scale="tcb"), rv, err, **kw)


def _sample(P, unit="day", own_epoch=None):
    import astropy.units as u
    from astropy.time import Time
    from thejoker import JokerSamples

    # own_epoch: the sample carries its own reference epoch (that of the orbit - the full data set, another season, ...)
    s = JokerSamples() if own_epoch is None else JokerSamples(t_ref=Time(own_epoch, format="mjd", scale="tcb"))
    if unit == "day":
        s["P"] = [P] * u.day
    else:
        # the same period stored in another unit
        s["P"] = ([P] * u.day).to({"yr": u.yr, "h": u.hour}[unit])
    return s


def ref_phases(slots, mirror=False, tref=None):
    """Exact phases (Fractions) relative to the reference epoch (default: the earliest observation)."""
    pos = [c * L + k for c, k in slots]
    if mirror:
        pos = [-p for p in pos]
    p0 = min(pos) if tref is None else tref[0] * L + tref[1]
    return [Fraction((p - p0) % L, L) for p in pos], Fraction(max(pos) - min(pos), L)


def ref_max_gap(phases):
    ph = sorted(set(phases))
    if len(ph) == 1:
        return Fraction(1)
    gaps = [b - a for a, b in zip(ph[:-1], ph[1:])] + [ph[0] + 1 - ph[-1]]
    return max(gaps)


def ref_coverage_options(phases, n_bins, ambiguous):
    """set of acceptable coverage values: an observation a whole number of cycles away from the reference epoch
    (exact phase 0 but not the reference itself) may round into the first or the last bin"""
    import itertools as it

    amb = [i for i in ambiguous if phases[i] == 0]
    out = set()
    for choice in it.product([0, 1], repeat=len(amb)):
        occ = set()
        for i, p in enumerate(phases):
            b = int(p * n_bins)
            if i in amb and choice[amb.index(i)]:
                b = n_bins - 1
            occ.add(b)
        out.add(len(occ) / n_bins)
    return out


def check_diag(case, part):
    from thejoker import samples_analysis as sa

    slots = [tuple(s) for s in case["slots"]]
    P = case["P"]
    tref = tuple(case["tref"]) if case.get("tref") else None
    phases, base = ref_phases(slots, tref=tref)
    samp = _sample(P, case.get("punit", "day"))
    want_gap = float(ref_max_gap(phases))
    want_span = float(base)  # baseline / P in cycles
    pos = [c * L + k for c, k in slots]
    p0 = min(pos) if tref is None else tref[0] * L + tref[1]
    ambiguous = {i for i, p in enumerate(pos) if p != p0}
    obs = []
    for order in case["orders"]:
        for sort, dirty, tarray in ((True, False, False), (False, False, False), (True, True, False), (True, False, True)):
            c2 = dict(case, order=order, sort=sort, dirty=dirty, tarray=tarray)
            try:
                d = _data(slots, P, order=order, tref=tref, sort=sort, dirty=dirty, tarray=tarray)
                gap = float(np.squeeze(sa.max_phase_gap(samp, d)))
                span = float(np.squeeze(sa.periods_spanned(samp, d)))
                covs = {nb: float(np.squeeze(sa.phase_coverage(samp, d, n_bins=nb))) for nb in case["bins"]}
            except Exception as e:
                part.violation(c2, f"diagnostic raised {type(e).__name__}: {e}")
                return
            obs.append((gap, span, covs))
            if abs(gap - want_gap) > 1e-7:
                part.violation(c2, "max_phase_gap != largest empty arc on the phase circle (incl. the arc across 1->0)",
                               expected=want_gap, observed=gap)
                return
            if abs(span - want_span) > 1e-7 * max(1, want_span):
                part.violation(c2, "periods_spanned != baseline / P", expected=want_span, observed=span)
                return
            for nb in case["bins"]:
                opts = ref_coverage_options(phases, nb, ambiguous)
                if all(abs(covs[nb] - w) > 1e-12 for w in opts):
                    part.violation(dict(c2, n_bins=nb), "phase_coverage != occupied bins / n_bins", expected=sorted(opts), observed=covs[nb])
                    return
    # order independence is implied by agreement of every order with the same expected value; time reversal:
    if tref is None:
        dm = _data(slots, P, mirror=True)
        gm = float(np.squeeze(sa.max_phase_gap(samp, dm)))
        if abs(gm - want_gap) > 1e-7:
            part.violation(dict(case, mirror=True), "max_phase_gap changes under time reversal of the observing pattern",
                           expected=want_gap, observed=gm)
    # the diagnostics describe the time sampling of the DATA for a period: a sample that carries an own reference epoch (not a
    # multiple of P / n_bins away from the data's) must give the same values
    samp2 = _sample(P, case.get("punit", "day"), own_epoch=T0 - 3.0 - 0.377 * P)
    d0 = _data(slots, P, tref=tref)
    try:
        g2 = float(np.squeeze(sa.max_phase_gap(samp2, d0)))
        s2 = float(np.squeeze(sa.periods_spanned(samp2, d0)))
        c2v = {nb: float(np.squeeze(sa.phase_coverage(samp2, d0, n_bins=nb))) for nb in case["bins"]}
    except Exception as e:
        part.violation(dict(case, sample_epoch=True), f"diagnostic raised for a sample carrying its own reference epoch: {type(e).__name__}: {e}")
        return
    if abs(g2 - want_gap) > 1e-7 or abs(s2 - want_span) > 1e-7 * max(1, want_span):
        part.violation(dict(case, sample_epoch=True), "max_phase_gap / periods_spanned depend on the sample's own reference epoch", expected=(want_gap, want_span), observed=(g2, s2))
        return
    for nb in case["bins"]:
        opts = ref_coverage_options(phases, nb, ambiguous)
        if all(abs(c2v[nb] - w) > 1e-12 for w in opts):
            part.violation(dict(case, sample_epoch=True, n_bins=nb), "phase_coverage depends on the sample's own reference epoch (bins are counted from the data's "
                           "reference epoch)", expected=sorted(opts), observed=c2v[nb])
            return
    # non-trivial: the wrap-around arc is the strictly largest one
    ph = sorted(set(phases))
    wrap = ph[0] + 1 - ph[-1]
    inner = max([b - a for a, b in zip(ph[:-1], ph[1:])], default=Fraction(0))
    part.record(case, outcome=(round(want_gap, 9), want_span, tuple(sorted(obs[0][2].items()))), nontrivial=wrap > inner)


def check_map(case, part):
    import astropy.units as u
    from thejoker import JokerSamples
    from thejoker.samples_analysis import MAP_sample

    lp, ll = case["ln_prior"], case["ln_like"]
    n = len(lp)
    s = JokerSamples()
    s["P"] = (np.arange(n) + 2.0) * u.day
    s["e"] = np.arange(n) / 10.0
    s["ln_prior"] = np.array(lp, dtype=float)
    s["ln_likelihood"] = np.array(ll, dtype=float)
    if case.get("stale_post"):
        # a stored ln_posterior column that no longer agrees with the two columns the definition names
        s["ln_posterior"] = -np.arange(n, dtype=float)[::-1] * 3.0
    tot = np.array(lp, dtype=float) + np.array(ll, dtype=float)
    if not np.any(np.isfinite(tot)):
        return  # no finite posterior value anywhere: nothing is defined
    try:
        m, idx = MAP_sample(s, return_index=True)
        m2 = MAP_sample(s)
    except Exception as e:
        part.violation(case, f"MAP_sample raised {type(e).__name__}: {e}")
        return
    idx = int(idx)
    part.record(case, outcome=(idx,), nontrivial=(np.argmax(tot) != 0 and len(set(tot.tolist())) > 1))
    if tot[idx] != tot.max():
        part.violation(case, "return_index does not point at a maximiser of ln_prior+ln_likelihood", expected=int(np.argmax(tot)), observed=idx)
        return
    for mm in (m, m2):
        Pm = float(np.atleast_1d(mm["P"].to_value(u.day))[0])
        j = int(round(Pm - 2.0))
        if not (0 <= j < n) or tot[j] != tot.max():
            part.violation(case, "returned row does not attain the maximum", expected=float(tot.max()), observed=Pm)
            return
        if float(np.atleast_1d(mm["ln_prior"])[0]) != lp[j] or float(np.atleast_1d(mm["ln_likelihood"])[0]) != ll[j]:
            part.violation(case, "returned row's columns are not those of one table row")
            return
    if float(np.atleast_1d(m["P"].to_value(u.day))[0]) != idx + 2.0:
        part.violation(case, "returned row is not the row at the returned index", expected=idx, observed=float(m["P"].value[0]) - 2)


def run_case(case, part):
    if case["kind"] == "diag":
        check_diag(case, part)
    else:
        check_map(case, part)


def shard(cases):
    part = core.Part()
    for c in cases:
        core.guard(run_case, c, part)
    return part


def build_cases(quick, seed):
    lattice = [(c, k) for c in (0, 2) for k in range(L)]
    kmax = 4 if quick else 6
    # periods: seed perturbs the numeric value only (structure identical)
    j = core.seeded_jitter(seed, "c19")
    periods = [1.0, 3.0 + 0.25 * round(4 * j) / 4, 10.5]
    bins = [4, 10, 12]
    cases = []
    for r in range(1, kmax + 1):
        for sub in itertools.combinations(lattice, r):
            if r <= 3:
                orders = [list(p) for p in itertools.permutations(range(r))]
            else:
                orders = [list(range(r)), list(range(r))[::-1], list(range(1, r)) + [0]]
            for P in periods:
                for tref in (None, [-1, 3], [1, 2]):
                    if tref is not None and r > 3 and P != periods[1]:
                        continue
                    cases.append(dict(kind="diag", slots=[list(s) for s in sub], P=P, bins=bins, orders=orders, tref=tref,
                                      punit=["day", "yr", "h"][(len(cases)) % 3]))
    vals = [(-2.0, -1.0, 0.0, float("-inf"))] * 2  # -inf: a sample outside the support of a narrower prior
    maps = []
    pairs = list(itertools.product(*vals))
    for n in range(1, (4 if quick else 5)):
        for rows in itertools.product(pairs, repeat=n):
            maps.append(dict(kind="map", ln_prior=[r[0] for r in rows], ln_like=[r[1] for r in rows]))
            if n == 3 and len(maps) % 5 == 0:
                maps.append(dict(kind="map", ln_prior=[r[0] for r in rows], ln_like=[r[1] for r in rows], stale_post=True))
    return cases, maps


def main():
    chk = core.Check(
        PID, "exploration",
        "all subsets (size<=4 quick / 6 thorough) of a 7-per-cycle phase lattice over cycles {0,2} x 3 periods x 3 bin "
        "counts x input orders (all permutations for size<=3; each with sort=True and sort=False) x reference epoch {default, explicit before all "
        "observations, explicit between them} + time-reversed pattern, vs exact rational definitions; all "
        "MAP tables with N<=3 (quick) / 4 rows over {-2,-1,0,-inf}^2 per row; the period stored in day / yr / h. Non-trivial (diag): the arc across phase 1->0 is "
        "strictly the largest; (MAP): the maximiser is not row 0 and sums are not all equal.",
    )
    cases, maps = build_cases(chk.quick, chk.seed)
    chk.bounds = {"diag_cases": len(cases), "map_tables": len(maps)}
    chk.merge(core.parallel(shard, core.interleave(cases, core.NPROC)))
    chk.merge(core.parallel(shard, core.interleave(maps, core.NPROC)))
    chk.assumptions += ["astropy Time arithmetic; an observation exactly one whole cycle after the reference may land in the first or last bin (rounding)",
                        "phase bins are counted from the DATA's reference epoch (the documented default of RVData.phase); a reference epoch carried by the sample "
                        "plays no role in a diagnostic of the data's time sampling"]
    return chk.finish(run_case)


def replay(doc):
    part = core.Part()
    run_case(doc["case"], part)
    for v in part.violations:
        print("REPRODUCED:", v["msg"], "\n expected:", v.get("expected"), "\n observed:", v.get("observed"))
    print("violations:", len(part.violations))
    return 1 if part.violations else 0
