"""C16 — work partitioning covers every prior sample exactly once, in order (E1)."""
import itertools
import os

import numpy as np

from .. import core, seams

PID = "C16"


def check_batch_tasks(case, part):
    from thejoker.utils import batch_tasks

    n, nb, start, use_arr, use_args = case["n_tasks"], case["n_batches"], case["start"], case["arr"], case["args"]
    arr = None
    if use_arr:
        # distinct, non-monotone values so that an order or off-by-one slip is visible
        arr = (np.arange(start + n) * 7919) % 10007 + 3
    args = ("a", 3.5) if use_args else None
    try:
        tasks = batch_tasks(n, nb, arr=arr, args=args, start_idx=start)
    except Exception as e:  # valid input must not raise
        part.violation(case, f"batch_tasks raised {type(e).__name__}: {e}")
        return
    sig = []
    ok = True
    msg = None
    if len(tasks) < 1:
        ok, msg = False, "no batches"
    cursor = start
    covered = []
    for t in tasks:
        t = list(t)
        head, tid, extra = t[0], t[1], tuple(t[2:])
        if extra != (tuple(args) if args else ()):
            ok, msg = False, f"extra args altered: {extra}"
        if arr is None:
            i1, i2 = head
            if not (i2 > i1):
                ok, msg = False, f"empty or reversed batch {head}"
            if i1 != cursor:
                ok, msg = False, f"batch {head} does not start where the previous ended ({cursor})"
            if tid != i1:
                ok, msg = False, f"task start index {tid} != batch start {i1}"
            covered.extend(range(i1, i2))
            sig.append(i2 - i1)
            cursor = i2
        else:
            head = np.asarray(head)
            if len(head) == 0:
                ok, msg = False, "empty batch"
            if tid != cursor:
                ok, msg = False, f"task start index {tid} != position of its first element {cursor}"
            covered.extend(head.tolist())
            sig.append(len(head))
            cursor += len(head)
    if arr is None:
        want = list(range(start, start + n))
    else:
        want = arr[start : start + n].tolist()
    if ok and covered != want:
        ok, msg = False, "batches do not cover exactly the requested range in order"
    part.record(case, outcome=(tuple(sig)), nontrivial=(len(tasks) > 1 and n % max(1, nb) != 0) or nb > n)
    if not ok:
        part.violation(case, msg, expected=want[:50], observed=covered[:50])


def shard_batch(cases):
    part = core.Part()
    for c in cases:
        check_batch_tasks(c, part)
    return part


# ---- fan-out through run_worker / the public helper with the recording stub -----------------
_LIB = {}


def _lib_file(N):
    if N not in _LIB:
        d = seams.fresh_dir("c16")
        path = os.path.join(d, f"lib{N}.hdf5")
        seams.stub_library(N).write(path, overwrite=True)
        _LIB[N] = path
    return _LIB[N]


def check_fanout(case, part):
    from thejoker.multiproc_helpers import marginal_ln_likelihood_helper

    N = case["N"]
    path = _lib_file(N)
    table = {i: -float(i) - 0.25 for i in range(N)}
    helper = seams.StubHelper(table)
    if case["pool"] == "serial":
        import schwimmbad

        pool = schwimmbad.SerialPool()
    else:
        pool = seams.ModelPool(size=case["size"], chunksize=case.get("chunksize"),
                               order=(lambda n: list(range(n))[::-1]) if case.get("reverse") else None,
                               roundtrip=True)
    kw = dict(n_batches=case["n_batches"])
    if case["idx"] is not None:
        kw["samples_idx"] = np.array(case["idx"], dtype=np.dtype(case.get("idx_dtype", "int64")))
        want_ids = list(case["idx"])
    elif case["n_prior"] is not None:
        kw["n_prior_samples"] = case["n_prior"]
        want_ids = list(range(case["n_prior"]))
    else:
        want_ids = list(range(N))
    seams.reset_logs()
    try:
        out = marginal_ln_likelihood_helper(helper, path, pool=pool, **kw)
    except Exception as e:
        part.violation(case, f"raised {type(e).__name__}: {e}")
        return
    evaluated = [i for e in seams.CALL_LOG if e[0] == "ll" for i in e[1]]
    nb_used = len([e for e in seams.CALL_LOG if e[0] == "ll"])
    part.record(case, outcome=(nb_used, tuple(sorted(evaluated)) == tuple(sorted(want_ids))),
                nontrivial=nb_used > 1)
    want = [table[i] for i in want_ids]
    if sorted(evaluated) != sorted(want_ids):
        part.violation(case, "rows evaluated != rows requested (each exactly once)", expected=want_ids, observed=evaluated)
    elif list(np.asarray(out)) != want:
        part.violation(case, "results not in request order", expected=want, observed=list(np.asarray(out)))
    if any(len(e[1]) == 0 for e in seams.CALL_LOG if e[0] == "ll"):
        part.violation(case, "an empty batch was sent to a worker")


def check_fanout_post(case, part):
    """the posterior-draw fan-out (tasks carry a child generator each): every requested index, once, in order"""
    from thejoker.multiproc_helpers import make_full_samples
    import astropy.units as u

    N = case["N"]
    path = _lib_file(N)
    helper = seams.StubHelper({i: -float(i) for i in range(N)})
    if case["pool"] == "serial":
        import schwimmbad

        pool = schwimmbad.SerialPool()
    else:
        pool = seams.ModelPool(size=case["size"], chunksize=case.get("chunksize"),
                               order=(lambda n: list(range(n))[::-1]) if case.get("reverse") else None)
    idx = np.array(case["idx"], dtype=np.dtype(case.get("idx_dtype", "int64")))
    seams.reset_logs()
    try:
        res = make_full_samples(helper, path, pool, np.random.default_rng(2), idx, n_linear_samples=case["n_linear"], n_batches=case["n_batches"])
    except Exception as e:
        part.violation(case, f"make_full_samples raised {type(e).__name__}: {e}")
        return
    got = [seams.StubHelper.row_id(p) for p in np.atleast_1d(res["P"].to_value(u.day))]
    want = [int(i) for i in case["idx"] for _ in range(case["n_linear"])]
    nb_used = len([e for e in seams.CALL_LOG if e[0] == "post"])
    part.record(case, outcome=(nb_used, tuple(got) == tuple(want)), nontrivial=nb_used > 1)
    if got != want:
        part.violation(case, "posterior-draw fan-out does not return exactly the requested rows, in order, n_linear times each", expected=want, observed=got)
    K = np.atleast_1d(res["K"].to_value(u.km / u.s))
    if len(set(K.tolist())) != len(K):
        part.violation(case, "two returned rows share a linear draw (tasks did not get their own stream)", observed=K.tolist())


def shard_fanout(cases):
    part = core.Part()
    for c in cases:
        core.guard(run_case, c, part)
    return part


def run_case(case, part):
    if case["kind"] == "batch_tasks":
        check_batch_tasks(case, part)
    elif case["kind"] == "fanout_post":
        check_fanout_post(case, part)
    else:
        check_fanout(case, part)


def build_cases(quick):
    nmax, bmax = (24, 28) if quick else (96, 100)
    cases = [
        dict(kind="batch_tasks", n_tasks=n, n_batches=nb, start=st, arr=a, args=g)
        for n in range(1, nmax + 1)
        for nb in range(1, bmax + 1)
        for st in (0, 1, 7, n + 3)  # (the last one: a start index beyond the task count)
        for a in (False, True)
        for g in (False, True)
    ]
    # large sizes (thresholds / caches): a sparse product
    for n in (1000, 4097, 65536, 100003):
        for nb in (1, 2, 7, 16, 1000, 4096):
            for st in (0, 2000):
                for a in (False, True):
                    cases.append(dict(kind="batch_tasks", n_tasks=n, n_batches=nb, start=st, arr=a, args=False))
                    # the same (n_tasks, n_batches) again right away with another start index: results must not depend on call history
                    cases.append(dict(kind="batch_tasks", n_tasks=n, n_batches=nb, start=st + 5, arr=a, args=False))
    fan = []
    Ns = (5, 8) if quick else (3, 7, 12)
    for N in Ns:
        idx_alts = [None, list(range(N))[::-1], [(3 * i + 1) % N for i in range(N)][: max(1, N - 1)], [N - 1], [0, N - 1]]
        for nb in [None] + list(range(1, N + 4)):
            for npri in [None, 1, N - 1, N]:
                fan.append(dict(kind="fanout", N=N, pool="serial", size=1, n_batches=nb, n_prior=npri, idx=None))
            for idx in idx_alts[1:]:
                fan.append(dict(kind="fanout", N=N, pool="serial", size=1, n_batches=nb, n_prior=None, idx=idx))
            for size in (1, 2, 3, 5):
                for cs in ([None, 1, 2] if quick else [None, 1, 2, 3, N]):
                    for rev in (False, True):
                        fan.append(dict(kind="fanout", N=N, pool="model", size=size, chunksize=cs, reverse=rev,
                                        n_batches=nb, n_prior=None, idx=None))
                        fan.append(dict(kind="fanout", N=N, pool="model", size=size, chunksize=cs, reverse=rev,
                                        n_batches=nb, n_prior=N - 1, idx=None))
                        fan.append(dict(kind="fanout", N=N, pool="model", size=size, chunksize=cs, reverse=rev,
                                        n_batches=nb, n_prior=None, idx=idx_alts[2]))
    # every ordering of a small contiguous block and of a block with a hole (non-monotonic arrays whose first/last are min/max too)
    import itertools as _it

    perm_idx = [list(p) for p in _it.permutations(range(1, 5))] + [list(p) for p in _it.permutations([0, 2, 3, 5])][::3]
    for idx in perm_idx:
        for nb in (None, 1, 2, 3, 5):
            fan.append(dict(kind="fanout", N=8, pool="serial", size=1, n_batches=nb, n_prior=None, idx=idx))
            fan.append(dict(kind="fanout_post", N=8, pool="serial", size=1, n_batches=nb, n_linear=1, idx=idx))
    # few indices with LARGE values (beyond 8-bit / 16-bit ranges) into a big library, serial and multi-worker pools
    for N, idx in ((700, [2, 690, 300, 512, 255, 256, 12]), (70001, [65536, 3, 70000, 65535, 257, 40000])):
        for nb in (None, 2, 3):
            for pool, size in (("serial", 1), ("model", 2), ("model", 3)):
                fan.append(dict(kind="fanout", N=N, pool=pool, size=size, chunksize=1, reverse=(size == 3), n_batches=nb, n_prior=None, idx=idx))
                fan.append(dict(kind="fanout_post", N=N, pool=pool, size=size, chunksize=1, reverse=(size == 3), n_batches=nb, n_linear=1, idx=idx))
    # range batches of several ten thousand rows with rows AFTER the batch end (block-wise evaluation inside a worker)
    for N, npri in ((70001, None), (70001, 40000), (90000, 66000)):
        for nb in (None, 2, 3):
            fan.append(dict(kind="fanout", N=N, pool="serial", size=1, n_batches=nb, n_prior=npri, idx=None))
    # an index array of well over 2 x 65536 rows split into two batches (per-task size caps inside the fan-out)
    NBIG = 140003
    bigidx = [(7 * i + 3) % NBIG for i in range(NBIG)]
    for pool, size in (("serial", 1), ("model", 2)):
        fan.append(dict(kind="fanout", N=NBIG, pool=pool, size=size, chunksize=1, reverse=False, n_batches=2, n_prior=None, idx=bigidx))
    # index arrays of other integer types (unsigned, 32-bit), containing zeros and repeats of large values
    for dt in ("uint8", "uint16", "uint32", "uint64", "int32", "int16"):
        for idx in ([5, 3, 7, 0, 6], [0, 0, 4], [7, 1]):
            for nb in (None, 1, 2, 4):
                fan.append(dict(kind="fanout", N=8, pool="serial", size=1, n_batches=nb, n_prior=None, idx=idx, idx_dtype=dt))
                fan.append(dict(kind="fanout_post", N=8, pool="model", size=2, chunksize=1, reverse=False, n_batches=nb, n_linear=1, idx=[i for i in dict.fromkeys(idx)], idx_dtype=dt))
    for N in Ns:
        idxs = [list(range(N)), list(range(N))[::-1], [(3 * i + 1) % N for i in range(N)], [N - 1], [0, N - 1, 1][: min(3, N)]]
        for idx in idxs:
            for nb in [None] + list(range(1, N + 3)):
                for nl in (1, 2):
                    fan.append(dict(kind="fanout_post", N=N, pool="serial", size=1, n_batches=nb, n_linear=nl, idx=idx))
                    for size in (1, 2, 3):
                        fan.append(dict(kind="fanout_post", N=N, pool="model", size=size, chunksize=1, reverse=True, n_batches=nb, n_linear=nl, idx=idx))
    return cases, fan


def main():
    chk = core.Check(
        PID, "exploration",
        "full product n_tasks x n_batches x start_idx x arr x args for batch_tasks; full product "
        "N x n_batches x n_prior_samples/index array x pool(size, chunksize, chunk order) through "
        "marginal_ln_likelihood_helper -> run_worker with a recording stub kernel. Non-trivial: more than one "
        "batch with a remainder, or more batches requested than tasks (batch_tasks); more than one batch "
        "actually sent (fan-out).",
    )
    cases, fan = build_cases(chk.quick)
    chk.bounds = {"batch_tasks_cases": len(cases), "fanout_cases": len(fan)}
    chk.merge(core.parallel(shard_batch, core.chunks(cases, core.NPROC)))
    chk.merge(core.parallel(shard_fanout, core.interleave(fan, core.NPROC)))
    chk.assumptions += [
        "with an explicit array and start_idx>0 the 'requested range' is arr[start_idx:start_idx+n_tasks]",
        "ModelPool models multiprocess.Pool.map: contiguous chunks, dill round trip per chunk, any chunk order",
    ]
    return chk.finish(run_case)


def replay(doc):
    part = core.Part()
    run_case(doc["case"], part)
    for v in part.violations:
        print("REPRODUCED:", v["msg"], "\n expected:", v.get("expected"), "\n observed:", v.get("observed"))
    print("violations:", len(part.violations))
    return 1 if part.violations else 0
