"""C13 — failures propagate and never leak cache files or damage user files (E2, fault enumeration)."""
import hashlib
import os
import shutil
import tempfile

import numpy as np

from .. import build, core, seams
from .. import problems as pb
from .. import sampler_driver as drv

PID = "C13"
EXC = {
    "RuntimeError": lambda: RuntimeError("injected fault"),
    "OSError": lambda: OSError(5, "injected I/O error"),
    "MemoryError": lambda: MemoryError("injected"),
    "KeyboardInterrupt": lambda: KeyboardInterrupt(),
}
ROWS = np.array([
    [1.3, 0.9, 1.0, 0.5, 0.0], [700.0, 0.0, 4.0, 3.0, 0.0], [3.7, 0.0, 0.2, 6.0, 0.0],
    [45.0, 0.6, 5.5, 1.2, 0.0], [1.05, 0.95, 2.2, 2.9, 0.0], [180.0, 0.3, 3.3, 4.4, 0.0],
])

SCENARIOS = []
for _api, _opts in (
    ("mll", {}),
    ("mll", {"n_batches": 3}),
    ("rej", {}),
    ("rej", {"return_logprobs": True, "n_batches": 2}),
    ("rej", {"randomize_prior_order": True, "n_linear_samples": 2}),
    ("iter", {"n_requested_samples": 2, "init_batch_size": 2}),
    ("iter", {"n_requested_samples": 2, "init_batch_size": 3, "randomize_prior_order": True, "return_logprobs": True}),
):
    for _inp in ("obj", "file"):
        for _pool in ("serial_real", "model_stub"):
            SCENARIOS.append(dict(api=_api, opts=_opts, input=_inp, pool=_pool))


class Env:
    """Everything one scenario needs, built once per worker process."""

    def __init__(self, scen):
        import astropy.units as u
        import thejoker as tj

        self.scen = scen
        self.scratch = seams.fresh_dir("c13-%s" % hashlib.sha1(repr(sorted(scen.items(), key=str)).encode()).hexdigest()[:8])
        self.tmpdir = os.path.join(self.scratch, "tmp")
        self.userdir = os.path.join(self.scratch, "user")
        for d in (self.tmpdir, self.userdir):
            shutil.rmtree(d, ignore_errors=True)
            os.makedirs(d)
        self.userfile = os.path.join(self.userdir, "library.hdf5")
        if scen["pool"] == "serial_real":
            prior, _ = pb.make_prior()
            self.data, _ = pb.make_data(n=3, layout="short", err="uniform")
            lib = pb.make_samples(ROWS)
            lp = -np.arange(len(ROWS), dtype=float) - 3.0
            lib["ln_prior"] = lp
            import schwimmbad

            self.pool = schwimmbad.SerialPool()
            self.joker = tj.TheJoker(prior, pool=self.pool, rng=np.random.default_rng(1), tempfile_path=self.tmpdir)
        else:
            self.data = None
            lib = seams.stub_library(6, ln_prior=drv.lnprior_tags(6))
            table = {i: -0.4 * i for i in range(6)}
            self.pool = seams.ModelPool(size=2, chunksize=1)
            self.joker = seams.make_stub_joker(table, np.random.default_rng(1), pool=self.pool, tempfile_path=self.tmpdir)
        self.lib = lib
        lib.write(self.userfile, overwrite=True)
        self.user_sha = self._sha()
        self.user_mtime = os.stat(self.userfile).st_mtime_ns

    def _sha(self):
        with open(self.userfile, "rb") as f:
            return hashlib.sha256(f.read()).hexdigest()

    def call(self):
        s = self.scen
        # fresh generator state per execution: determinism of the point sequence
        self.joker.rng = np.random.default_rng(1)
        ps = self.lib if s["input"] == "obj" else self.userfile
        if s["api"] == "mll":
            return np.array(self.joker.marginal_ln_likelihood(self.data, ps, **s["opts"]))
        if s["api"] == "rej":
            return self.joker.rejection_sample(self.data, ps, **s["opts"])
        return self.joker.iterative_rejection_sample(self.data, ps, **s["opts"])

    def followup(self):
        return np.array(self.joker.marginal_ln_likelihood(self.data, self.lib if self.scen["input"] == "obj" else self.userfile))

    def leaks(self):
        out = []
        for root, _, files in os.walk(self.tmpdir):
            out += [f for f in files if f.endswith((".hdf5", ".h5"))]
        # a cache file that was unlinked but is still held open by this process is left behind too (until the process ends);
        # only descriptors opened since the last clean_tmp() count
        new = self._open_cache_fds() - getattr(self, "_fd_base", set())
        if new:
            # objects kept alive only by reference cycles (exception tracebacks) are released first
            import gc

            gc.collect()
            new = self._open_cache_fds() - getattr(self, "_fd_base", set())
        out += sorted(new)
        return out

    def _open_cache_fds(self):
        found = set()
        try:
            for fd in os.listdir("/proc/self/fd"):
                try:
                    tgt = os.readlink("/proc/self/fd/" + fd)
                except OSError:
                    continue
                if tgt.startswith(self.tmpdir) and (tgt.endswith((".hdf5", ".h5")) or tgt.endswith((".hdf5 (deleted)", ".h5 (deleted)"))):
                    found.add("open descriptor %s -> %s" % (fd, os.path.basename(tgt)))
        except OSError:
            pass
        return found

    def clean_tmp(self):
        for root, _, files in os.walk(self.tmpdir):
            for f in files:
                os.unlink(os.path.join(root, f))
        self._fd_base = self._open_cache_fds()


_ENV = {}
_INJ = None


def env_for(scen):
    global _INJ
    key = repr(sorted(scen.items(), key=str))
    if key not in _ENV:
        _ENV[key] = Env(scen)
    e = _ENV[key]
    tempfile.tempdir = e.tmpdir
    if _INJ is None:
        import thejoker.multiproc_helpers  # noqa: F401  (make sure every module is loaded before collecting code objects)
        import thejoker.likelihood_helpers  # noqa: F401

        _INJ = seams.FaultInjector(os.path.join(build.REPO, "thejoker"))
        _INJ.install()
    return e


def enumerate_points(scen):
    """warm-up, then two counting runs that must list the same points"""
    e = env_for(scen)
    e.call()
    e.followup()
    ref, p1 = _INJ.count(e.call)
    _, p2 = _INJ.count(e.call)
    fref, q1 = _INJ.count(e.followup)
    if p1 != p2:
        raise seams.HarnessDivergence("injection points differ between two counting runs of " + repr(scen))
    return p1, q1


def _deliberate_translation(raised, inj):
    """True if `raised` replaced the injected failure through an explicit `raise` statement of thejoker itself inside the handler of
    that failure (e.g. `except Exception: raise ValueError("Invalid file name")`): the failure still reaches the caller, in
    thejoker's words.  An error produced by a CALL made while the failure was being handled (a clean-up step) is not that."""
    import dis

    ctx, seen = raised.__context__, set()
    while ctx is not None and ctx is not inj and id(ctx) not in seen:
        seen.add(id(ctx))
        ctx = ctx.__context__ or ctx.__cause__
    if ctx is not inj:
        return False
    tb = raised.__traceback__
    if tb is None:
        return False
    while tb.tb_next is not None:
        tb = tb.tb_next
    code = tb.tb_frame.f_code
    if not os.path.realpath(code.co_filename).startswith(os.path.realpath(os.path.join(build.REPO, "thejoker"))):
        return False
    for ins in dis.get_instructions(code):
        if ins.offset == tb.tb_lasti:
            return ins.opname == "RAISE_VARARGS"
    return False


def is_cleanup_unlink(point):
    # a fault inside the clean-up's own unlink / the temporary file's own close cannot also have them succeed
    return point[1].endswith("wrapper") and (point[4] in ("unlink", "remove") or point[4].endswith("close"))


def run_fault(scen, point, excname, part, second=None):
    e = env_for(scen)
    case = dict(kind="fault", scenario=scen, point=list(point), exc=excname)
    if second is not None:
        case["second"] = [list(second[0]), second[1]]
    e.clean_tmp()
    fref = _FREF.get(repr(scen))
    if fref is None:
        fref = _FREF.setdefault(repr(scen), e.followup())
    raised = None
    try:
        _INJ.inject(e.call, point, EXC[excname]())
    except BaseException as ex:  # noqa
        raised = ex
    fired = _INJ.fired
    part.transitions += 1
    if fired is None:
        part.violation(case, "HARNESS: injection point was not reached in the replayed execution (nondeterminism not owned)")
        part.extra.setdefault("harness_errors", []).append("point not reached: %r" % (case,))
        return
    # (i) the failure reaches the caller
    if raised is None:
        part.violation(case, f"a {excname} raised inside {point[1]} (call to {point[4]}) was swallowed: the API returned normally")
    else:
        # ... and it is THAT failure the caller sees (itself, or as the explicit cause of a translated error) - not an unrelated
        # error raised by a clean-up step while the real one was being handled
        inj = _INJ.exc
        chain, cur = [], raised
        while cur is not None and id(cur) not in [id(x) for x in chain]:
            chain.append(cur)
            cur = cur.__cause__
        if inj is not None and not any(x is inj for x in chain) and not _deliberate_translation(raised, inj):
            part.violation(case, f"the {excname} raised inside {point[1]} (call to {point[4]}) does not reach the caller: the caller gets "
                           f"{type(raised).__name__}: {str(raised)[:120]} (the real failure survives at most as implicit context)")
    # (ii) no temporary file left behind
    leaks = e.leaks()
    if point[4].split(".")[-1] in ("close", "__exit__", "__del__"):
        # the failing call IS the one that releases the file handle: a descriptor left open is that failure itself
        leaks = [x for x in leaks if not x.startswith("open descriptor")]
    if leaks and not is_cleanup_unlink(point):
        part.violation(case, f"temporary cache file(s) left behind after a failure in {point[1]} -> {point[4]}: {leaks}")
    e.clean_tmp()
    # (iii) user file untouched
    if e._sha() != e.user_sha or os.stat(e.userfile).st_mtime_ns != e.user_mtime:
        part.violation(case, "the user's samples file was modified")
        e.lib.write(e.userfile, overwrite=True)
        e.user_sha, e.user_mtime = e._sha(), os.stat(e.userfile).st_mtime_ns
    # (iv) the same TheJoker gives correct results on the next call (optionally with a second fault first)
    if second is not None:
        try:
            _INJ.inject(e.followup, second[0], EXC[second[1]]())
            if _INJ.fired is not None:
                part.violation(case, "second fault (in the follow-up call) was swallowed")
        except BaseException:  # noqa
            pass
        leaks2 = e.leaks()
        if second[0][4].split(".")[-1] in ("close", "__exit__", "__del__"):
            # (as for the first fault: a descriptor left open by a failing close IS that failure)
            leaks2 = [x for x in leaks2 if not x.startswith("open descriptor")]
        if leaks2 and not is_cleanup_unlink(second[0]):
            part.violation(case, f"temporary file(s) left behind after the second fault: {leaks2}")
        e.clean_tmp()
    try:
        f = e.followup()
        if not np.array_equal(f, fref, equal_nan=True):
            part.violation(case, "follow-up call on the same TheJoker gives different results after the failure", expected=fref, observed=f)
    except BaseException as ex:  # noqa
        part.violation(case, f"follow-up call on the same TheJoker failed after the failure: {type(ex).__name__}: {str(ex)[:200]}")
    if e.leaks():
        part.violation(case, f"follow-up call left temporary files: {e.leaks()}")
        e.clean_tmp()
    part.record(case, outcome=(point[0], point[1], point[4], excname, type(raised).__name__ if raised else None),
                nontrivial=True)


_FREF = {}


def shard(items):
    part = core.Part()
    for it in items:
        scen, point, excname = it[:3]
        second = it[3] if len(it) > 3 else None
        try:
            run_fault(scen, tuple(point), excname, part, second)
        except seams.HarnessDivergence as ex:
            part.extra.setdefault("harness_errors", []).append(str(ex))
    part.states = part.evals
    return part


def shard_enum(scens):
    out = []
    for s in scens:
        p, q = enumerate_points(s)
        out.append((s, p, q))
    part = core.Part()
    part.extra["_points"] = out
    return part


def run_case(case, part):
    run_fault(case["scenario"], tuple(case["point"]), case["exc"], part, (tuple(case["second"][0]), case["second"][1]) if case.get("second") else None)


def real_multipool(chk):
    """conformance: a worker that raises on its j-th task on a real MultiPool(2): propagation, no leak, pool still usable"""
    import schwimmbad
    import thejoker.multiproc_helpers as mh

    part = core.Part()
    tmpdir = seams.fresh_dir("c13mp")
    tempfile.tempdir = tmpdir
    table = {i: -0.4 * i for i in range(6)}
    lib = seams.stub_library(6)
    for j in range(4):
        def fail_on(kind, ids, j=j):
            if j in ids:
                raise RuntimeError("worker failure on row %d" % j)

        with schwimmbad.MultiPool(processes=2) as pool:
            joker = seams.make_stub_joker(table, np.random.default_rng(1), pool=pool, tempfile_path=tmpdir, fail_on=fail_on)
            raised = None
            try:
                joker.marginal_ln_likelihood(None, lib, n_batches=4)
            except BaseException as ex:  # noqa
                raised = ex
            case = dict(kind="multipool", fail_row=j)
            part.record(case, outcome=(type(raised).__name__ if raised else None,), nontrivial=True)
            leaks = [f for f in os.listdir(tmpdir) if f.endswith(".hdf5")]
            if raised is None:
                part.violation(case, "worker failure on a real MultiPool did not reach the caller")
            elif leaks:
                part.violation(case, f"temporary file left after a worker failure on a real MultiPool: {leaks}")
            else:
                # the SAME TheJoker (and pool) must give correct results on the next call
                try:
                    ok = seams.make_stub_joker(table, np.random.default_rng(1), pool=pool, tempfile_path=tmpdir)
                    out = np.array(ok.marginal_ln_likelihood(None, lib, n_batches=4))
                except BaseException as ex:  # noqa
                    part.violation(case, f"after a worker failure the pool / sampler is unusable: {type(ex).__name__}: {ex}")
                    continue
                if list(out) != [table[i] for i in range(6)]:
                    part.violation(case, "pool not usable / wrong results after a worker failure", observed=out)
                else:
                    part.validated += 1
    return part


def multipool_awkward_exceptions(chk):
    """a batch read fails inside a worker process with an exception class that is awkward to ship between processes (fixed
    constructor arity, OS error with errno/filename, ...): the failure must still REACH the caller - in a child interpreter
    under a watchdog, because the way this goes wrong is a silent hang of pool.map"""
    import json
    import subprocess
    import sys

    part = core.Part()
    timeout = 300
    for kind in ("unicode", "oserror", "keyerror", "needs_two"):
        for where in ("file", "object"):
            case = dict(kind="multipool_exc", exc=kind, input=where)
            scratch = seams.fresh_dir("c13x")
            env = dict(os.environ, VERIF_SCRATCH=scratch)
            p = subprocess.Popen([sys.executable, "-W", "ignore", "-m", "mc.props.c13_child", kind, where], cwd=core.VERIF, env=env,
                                 stdout=subprocess.PIPE, stderr=subprocess.PIPE, text=True, start_new_session=True)
            try:
                so, se = p.communicate(timeout=timeout)
            except subprocess.TimeoutExpired:
                import signal

                try:
                    os.killpg(p.pid, signal.SIGKILL)
                except Exception:
                    p.kill()
                p.communicate()
                part.record(case, outcome=("hang",), nontrivial=True)
                part.violation(case, f"a {kind} raised by a batch read inside a MultiPool worker never reached the caller: after {timeout} s the call had neither "
                               "raised nor returned (pool.map hangs)")
                continue
            line = [ln for ln in so.splitlines() if ln.startswith("C13CHILD ")]
            if not line:
                part.extra.setdefault("harness_errors", []).append("c13 child failed: " + (se or so)[-400:])
                part.violation(case, "HARNESS: the child interpreter did not report: " + (se or so)[-300:])
                continue
            out = json.loads(line[0][len("C13CHILD "):])
            part.record(case, outcome=(out.get("raised"), bool(out.get("leaks"))), nontrivial=True)
            part.transitions += 1
            if out.get("raised") is None:
                part.violation(case, f"a {kind} raised by a batch read inside a MultiPool worker was swallowed")
            elif out.get("leaks"):
                part.violation(case, f"temporary file left behind after a worker's read failure on a real MultiPool: {out['leaks']}")
            else:
                part.validated += 1
    return part


def main():
    chk = core.Check(
        PID, "fault_enumeration",
        "for 7 API variants {marginal_ln_likelihood (+n_batches), rejection_sample (default / return_logprobs+batches / randomised + "
        "n_linear), iterative_rejection_sample (default / randomised + logprobs)} x input {JokerSamples object -> temporary cache, user "
        "file} x {SerialPool + real kernel, modelled pool + stub kernel with pickling round trips}: EVERY call instruction executed "
        "inside thejoker's own Python code during the call (sys.monitoring CALL events, keyed by file/function/offset/occurrence; two "
        "counting runs must agree) is made to fail, one execution per point x exception type {RuntimeError; quick: OSError, MemoryError, "
        "KeyboardInterrupt on every 4th point; thorough: all types on all points, plus two-fault sequences}; oracle: the exception reaches "
        "the caller, no temporary .hdf5 remains, the user's file has the same sha256 and mtime, and a follow-up call on the same TheJoker "
        "returns the reference values. Every execution is non-trivial (exactly one fault fired).",
    )
    scens = SCENARIOS
    enum = core.parallel(shard_enum, core.interleave(scens, core.NPROC))
    pts = enum.extra.pop("_points", [])
    if enum.extra.get("harness_errors"):
        chk.merge(enum)
        return chk.finish(run_case)
    items = []
    npoints = 0
    for s, p, q in pts:
        npoints += len(p)
        for i, point in enumerate(p):
            items.append((s, point, "RuntimeError"))
            for k, other in enumerate(("OSError", "MemoryError", "KeyboardInterrupt")):
                if not chk.quick or (i + k) % 4 == 0:
                    items.append((s, point, other))
        if not chk.quick:
            # two-fault sequences: a fault in the call (every 9th point), then every point of the follow-up call
            for i, point in enumerate(p[::9]):
                for j, p2 in enumerate(q):
                    items.append((s, point, "RuntimeError", (p2, "OSError" if j % 2 else "RuntimeError")))
    chk.bounds = {"scenarios": len(scens), "injection_points": npoints, "executions": len(items)}
    # keep each scenario's items together per worker (environment reuse) but balance
    items.sort(key=lambda it: repr(it[0]))
    chk.merge(core.parallel(shard, core.chunks(items, core.NPROC * 3)))
    chk.merge(real_multipool(chk))
    chk.merge(multipool_awkward_exceptions(chk))
    chk.assumptions += [
        "crash points are exceptions raised at call boundaries inside thejoker's Python code; SIGKILL and failures inside a C call are outside the model",
        "the single point excluded from the leak oracle is the cleanup's own os.unlink call",
        "worker code runs in-process under the modelled pool (so its call events are injectable); a real MultiPool(2) conformance slice covers process workers",
    ]
    return chk.finish(run_case)


def replay(doc):
    part = core.Part()
    run_case(doc["case"], part)
    for v in part.violations:
        print("REPRODUCED:", v["msg"], "\n expected:", v.get("expected"), "\n observed:", v.get("observed"))
    print("violations:", len(part.violations))
    return 1 if part.violations else 0
