"""Child interpreter for C13: a batch read fails inside a worker PROCESS of a real MultiPool with an exception of an awkward
class; prints what the caller saw as JSON.  The parent kills this process if it neither raises nor returns (a hang)."""
import json
import os
import sys


class NeedsTwo(Exception):
    """an exception class whose constructor insists on exactly two arguments (many library errors look like this)"""

    def __init__(self, code, path):
        super().__init__(code, path)
        self.code, self.path = code, path


def make_exc(kind):
    if kind == "unicode":
        return UnicodeDecodeError("utf-8", b"\xb5", 0, 1, "invalid start byte")
    if kind == "oserror":
        return OSError(5, "Input/output error", "/some/file.hdf5")
    if kind == "keyerror":
        return KeyError("samples")
    if kind == "needs_two":
        return NeedsTwo(3, "/some/file.hdf5")
    raise KeyError(kind)


def main():
    from .. import build

    kind, where = sys.argv[1], sys.argv[2]
    scratch = os.environ["VERIF_SCRATCH"]
    build.bind()
    import tempfile

    import numpy as np
    import schwimmbad
    import thejoker.multiproc_helpers as mh

    from .. import seams

    tempfile.tempdir = scratch
    table = {i: -0.4 * i for i in range(6)}
    lib = seams.stub_library(6)
    path = os.path.join(scratch, "lib-%d.hdf5" % os.getpid())
    lib.write(path, overwrite=True)
    real = mh.read_batch
    calls = {"n": 0}

    def failing(*a, **k):
        # (every worker process has its own counter: each fails on its first read)
        calls["n"] += 1
        if calls["n"] == 1:
            raise make_exc(kind)
        return real(*a, **k)

    mh.read_batch = failing  # inherited by the forked workers
    out = {"kind": kind, "where": where}
    with schwimmbad.MultiPool(processes=2) as pool:
        joker = seams.make_stub_joker(table, np.random.default_rng(1), pool=pool, tempfile_path=scratch)
        src = path if where == "file" else lib
        try:
            joker.marginal_ln_likelihood(None, src, n_batches=4)
            out["raised"] = None
        except BaseException as e:  # noqa
            out["raised"] = type(e).__name__
            out["args_ok"] = bool(isinstance(e, type(make_exc(kind))))
        mh.read_batch = real
    out["leaks"] = [f for f in os.listdir(scratch) if f.endswith(".hdf5") and not f.startswith("lib-")]
    print("C13CHILD " + json.dumps(out))


if __name__ == "__main__":
    main()
