"""C15 — RVData preserves the observations it is given (E1 + chains)."""
import itertools

import numpy as np

from .. import core

PID = "C15"
T0 = 57000.0
NAN = float("nan")


def _mk(case):
    """Build inputs for a construction case.  Returns (kwargs, model) where model is the list of
    finite (t, v, e) triples (1-D errors) or (t, v, cov-index) for covariance input."""
    import astropy.units as u
    from astropy.time import Time

    n = len(case["t"])
    tvals = {0: T0 + 1.5, 1: T0 + 2.25, 2: T0 + 40.0, 3: NAN}
    t = np.array([tvals[k] for k in case["t"]], dtype=float)
    unit = u.km / u.s if case["unit"] == "km/s" else u.m / u.s
    v = np.array([11.0 + 3 * i for i in range(n)])
    for i, b in enumerate(case["vbad"]):
        if b:
            v[i] = NAN if (i % 2 == 0) else np.inf
    if case.get("cov"):
        # symmetric matrix with unique entries, diagonally dominant
        C = np.zeros((n, n))
        for i in range(n):
            for j in range(i, n):
                C[i, j] = C[j, i] = (5.0 + i) if i == j else 0.1 * (1 + i + 2 * j)
        # cm/s-level precision quoted in (km/s)^2: every entry is tiny, correlations included
        C = C * case.get("covscale", 1.0)
        for (i, j) in case.get("covbad", []):
            C[i, j] = C[j, i] = NAN if (i + j) % 2 == 0 else np.inf
        err = C * unit**2
        fin = [bool(np.isfinite(t[i]) and np.isfinite(v[i]) and np.all(np.isfinite(C[i]))) for i in range(n)]
    else:
        e = np.array([0.5 + 0.25 * i for i in range(n)])
        for i, b in enumerate(case["ebad"]):
            if b:
                e[i] = np.inf if (i % 2 == 0) else NAN
        err = e * unit
        fin = [bool(np.isfinite(t[i]) and np.isfinite(v[i]) and np.isfinite(e[i])) for i in range(n)]
    if case["tfmt"] == "float":
        tin = t
    else:
        tin = Time(t, format="mjd", scale="tcb")
    kw = dict(t=tin, rv=v * unit, rv_err=err, clean=case["clean"])
    if case.get("sort") is False:
        kw["sort"] = False
    if case["t_ref"] == "explicit":
        kw["t_ref"] = Time(T0 - 5.0, format="mjd", scale="tcb")
    elif case["t_ref"] == "false":
        kw["t_ref"] = False
    return kw, t, v, (C if case.get("cov") else e), fin, unit


def _state(d):
    """Observable state of an RVData."""
    t = np.array(d.t.tcb.mjd, dtype=float)
    v = np.array(d.rv.value, dtype=float)
    e = np.array(d.rv_err.value, dtype=float)
    return t, v, e


def _check_against(d, exp_t, exp_v, exp_e, unit, cov, part, case, what, want_sorted=True):
    t, v, e = _state(d)
    if len(d) != len(exp_t) or len(t) != len(exp_t) or len(v) != len(exp_t):
        part.violation(case, f"{what}: {len(t)} observations held, {len(exp_t)} expected", expected=list(exp_t), observed=list(t))
        return False
    if want_sorted and np.any(np.diff(t) < 0):
        part.violation(case, f"{what}: times not sorted", observed=list(t))
        return False
    if not want_sorted and t.tolist() != list(exp_t):
        part.violation(case, f"{what}: sort=False but the observations are not held in the order given", expected=list(exp_t), observed=t.tolist())
        return False
    if d.rv.unit != unit or (d.rv_err.unit != (unit**2 if cov else unit)):
        part.violation(case, f"{what}: units changed", expected=str(unit), observed=(str(d.rv.unit), str(d.rv_err.unit)))
        return False
    # pairing: multiset of triples (1-D) / consistent permutation (cov)
    if not cov:
        got = sorted(zip(t.tolist(), v.tolist(), e.tolist()))
        want = sorted(zip(exp_t, exp_v, exp_e))
        if got != want:
            part.violation(case, f"{what}: (time, velocity, error) triples differ from the finite input observations", expected=want, observed=got)
            return False
        iv = np.array(d.ivar.to_value(1 / unit**2))
        if not np.allclose(iv, 1.0 / e**2, rtol=1e-14, atol=0):
            part.violation(case, f"{what}: ivar != 1/sigma^2", expected=list(1 / e**2), observed=list(iv))
            return False
    else:
        # find the permutation by velocity tags (unique)
        idx = [list(exp_v).index(x) if x in list(exp_v) else -1 for x in v.tolist()]
        if sorted(idx) != list(range(len(exp_v))):
            part.violation(case, f"{what}: velocities are not the finite input velocities", expected=list(exp_v), observed=list(v))
            return False
        if [exp_t[i] for i in idx] != t.tolist():
            part.violation(case, f"{what}: a time is no longer paired with its velocity", expected=[exp_t[i] for i in idx], observed=t.tolist())
            return False
        wantC = np.array(exp_e)[np.ix_(idx, idx)] if len(idx) else np.zeros((0, 0))
        if e.shape != wantC.shape or not np.array_equal(e, wantC):
            part.violation(case, f"{what}: covariance rows/columns not permuted together with the observations", expected=wantC, observed=e)
            return False
        if len(idx):
            iv = np.array(d.ivar.to_value(1 / unit**2))
            if not np.allclose(iv, np.linalg.inv(wantC), rtol=1e-9, atol=0):
                part.violation(case, f"{what}: ivar != inverse covariance", expected=np.linalg.inv(wantC), observed=iv)
                return False
    return True


def _tref_ok(d, case, exp_t, part, what):
    if case["t_ref"] == "false":
        ok = d.t_ref is None and d._t_ref_bmjd == 0.0
        want = None
    elif case["t_ref"] == "explicit":
        want = T0 - 5.0
        ok = d.t_ref is not None and float(d.t_ref.tcb.mjd) == want and float(d._t_ref_bmjd) == want
    else:
        want = min(exp_t)
        ok = d.t_ref is not None and abs(float(d.t_ref.tcb.mjd) - want) < 1e-9 and abs(float(d._t_ref_bmjd) - want) < 1e-9
    if not ok:
        part.violation(case, f"{what}: reference epoch wrong", expected=want,
                       observed=None if d.t_ref is None else float(d.t_ref.tcb.mjd))
    return ok


def _index_exprs(n):
    """every non-empty slice, a few index arrays, every non-empty mask"""
    out = []
    for a in range(n):
        for b in range(a + 1, n + 1):
            for st in (1, 2):
                out.append(("slice", a, b, st))
    for r in range(1, min(n, 3) + 1):
        for p in itertools.permutations(range(n), r):
            out.append(("idx",) + p)
    for m in itertools.product([False, True], repeat=n):
        if any(m):
            out.append(("mask",) + m)
    return out


def _apply_index(expr, seq_len):
    if expr[0] == "slice":
        return slice(expr[1], expr[2], expr[3]), list(range(seq_len))[expr[1]:expr[2]:expr[3]]
    if expr[0] == "idx":
        return np.array(expr[1:], dtype=int), list(expr[1:])
    m = np.array(expr[1:], dtype=bool)
    return m, [i for i, b in enumerate(expr[1:]) if b]


def run_case(case, part):
    from thejoker import RVData

    if case.get("kind") == "guess":
        return check_guess(case, part)
    if case.get("kind") == "ts_plain":
        return check_ts_plain(case, part)
    kw, t, v, e, fin, unit = _mk(case)
    cov = bool(case.get("cov"))
    if not case["clean"] and not all(fin):
        return  # outside what the property fixes
    keep = [i for i in range(len(t)) if fin[i]] if case["clean"] else list(range(len(t)))
    if len(keep) == 0:
        part.add("skipped_all_dropped")
        return
    exp_t = [float(t[i]) for i in keep]
    exp_v = [float(v[i]) for i in keep]
    exp_e = (np.array(e)[np.ix_(keep, keep)] if cov else [float(e[i]) for i in keep])
    try:
        d = RVData(**kw)
    except Exception as ex:
        part.violation(case, f"RVData(...) raised {type(ex).__name__}: {ex}")
        return
    dropped = len(t) - len(keep)
    tie = len(set(exp_t)) < len(exp_t)
    unsorted_in = any(np.diff(exp_t) < 0)
    part.record(case, outcome=(tuple(_state(d)[0]), tuple(_state(d)[1])), nontrivial=bool(dropped or tie or unsorted_in))
    if not _check_against(d, exp_t, exp_v, exp_e, unit, cov, part, case, "construction", want_sorted=case.get("sort") is not False):
        return
    if not _tref_ok(d, case, exp_t, part, "construction"):
        return
    # ---- chains of copy / index, depth <= case['depth'] ---------------------------------
    depth = case.get("depth", 1)
    n0 = len(keep)

    def walk(obj, cur_t, cur_v, cur_e, level, hist, tref_same):
        # copy
        ops = [("copy",)] + ([("timeseries",), ("plot",)] if level <= 1 else []) + (_index_exprs(len(cur_t)) if len(cur_t) <= 3 or level == 0 else _index_exprs(len(cur_t))[:12])
        for op in ops:
            h = hist + [op]
            c2 = dict(case, chain=[list(map(lambda x: x if not isinstance(x, (np.bool_,)) else bool(x), o)) for o in h])
            try:
                if op[0] == "copy":
                    nxt = obj.copy()
                    nt, nv, ne = cur_t, cur_v, cur_e
                    keep_tref = tref_same
                elif op[0] == "plot":
                    # read-only use: plotting the data (times relative to the reference epoch) must leave the object as it was
                    import matplotlib

                    matplotlib.use("Agg")
                    import matplotlib.pyplot as plt

                    if obj.t_ref is None:
                        continue  # (plotting data without a reference epoch is refused by the library)
                    before = [np.array(x).copy() for x in _state(obj)] + [float(obj._t_ref_bmjd)]
                    fig, ax = plt.subplots()
                    try:
                        obj.plot(ax=ax, relative_to_t_ref=True)
                        obj.plot(ax=ax)
                    finally:
                        plt.close(fig)
                    after = [np.array(x) for x in _state(obj)] + [float(obj._t_ref_bmjd)]
                    part.add("chain_ops")
                    part.transitions += 1
                    if not all(np.array_equal(a_, b_) for a_, b_ in zip(before, after)):
                        part.violation(c2, "plotting the data changed the observations / reference epoch stored in the object", expected=[np.asarray(b_).tolist() for b_ in before[:1]],
                                       observed=[np.asarray(a_).tolist() for a_ in after[:1]])
                    continue
                elif op[0] == "timeseries":
                    # persistence: to_timeseries -> file -> from_timeseries holds the same observations (and reference epoch, if any)
                    import os

                    from .. import seams

                    fn = os.path.join(seams.fresh_dir("c15"), "ts-%d.hdf5" % os.getpid())
                    if os.path.exists(fn):
                        os.unlink(fn)
                    obj.to_timeseries().write(fn, path="rvdata", serialize_meta=True)
                    nxt = type(obj).from_timeseries(fn, path="rvdata")
                    os.unlink(fn)
                    nt, nv, ne = cur_t, cur_v, cur_e
                    keep_tref = tref_same and obj.t_ref is not None
                else:
                    key, pos = _apply_index(op, len(cur_t))
                    nxt = obj[key]
                    nt = [cur_t[i] for i in pos]
                    nv = [cur_v[i] for i in pos]
                    ne = (np.array(cur_e)[np.ix_(pos, pos)] if cov else [cur_e[i] for i in pos])
                    keep_tref = False
            except Exception as ex:
                part.violation(c2, f"{op[0]} raised {type(ex).__name__}: {ex}")
                continue
            part.add("chain_ops")
            part.transitions += 1
            if not _check_against(nxt, nt, nv, ne, unit, cov, part, c2, "after " + repr(h)):
                continue
            # the object's public reference epoch and the number the samplers read must agree after every operation (which epoch a
            # selection gets is not fixed by the property)
            if (nxt.t_ref is None) != (float(nxt._t_ref_bmjd) == 0.0 and nxt.t_ref is None) or \
                    (nxt.t_ref is not None and abs(float(nxt.t_ref.tcb.mjd) - float(nxt._t_ref_bmjd)) > 1e-9):
                part.violation(c2, "t_ref and the internal reference epoch disagree after " + repr(h), expected=None if nxt.t_ref is None else float(nxt.t_ref.tcb.mjd),
                               observed=float(nxt._t_ref_bmjd))
                continue
            if op[0] == "timeseries" and obj.t_ref is not None:
                a, b = obj.t_ref, nxt.t_ref
                if b is None or abs(float(a.tcb.mjd) - float(b.tcb.mjd)) > 1e-9:
                    part.violation(c2, "to_timeseries -> file -> from_timeseries changed the reference epoch", expected=float(a.tcb.mjd), observed=None if b is None else float(b.tcb.mjd))
                    continue
            if op[0] == "copy" and keep_tref:
                # same reference epoch as the object copied
                a, b = obj.t_ref, nxt.t_ref
                same = (a is None and b is None) or (a is not None and b is not None and float(a.tcb.mjd) == float(b.tcb.mjd))
                if not same or float(obj._t_ref_bmjd) != float(nxt._t_ref_bmjd):
                    part.violation(c2, "copy() changed the reference epoch",
                                   expected=None if a is None else float(a.tcb.mjd), observed=None if b is None else float(b.tcb.mjd))
                    continue
            if level + 1 < depth:
                # continue from the state actually reached (stored order)
                st, sv, se = _state(nxt)
                walk(nxt, st.tolist(), sv.tolist(), (se if cov else se.tolist()), level + 1, h, op[0] in ("copy", "timeseries", "plot") and keep_tref)

    if depth > 0:
        st, sv, se = _state(d)
        walk(d, st.tolist(), sv.tolist(), (se if cov else se.tolist()), 0, [], True)


def check_ts_plain(case, part):
    """a plain astropy TimeSeries (not produced by to_timeseries: no / empty / explicit reference epoch in its meta) written to a
    file and read with RVData.from_timeseries: the object holds the table's observations and the reference epoch defaults to
    the earliest time"""
    import os

    import astropy.units as u
    from astropy.time import Time
    from astropy.timeseries import TimeSeries
    from thejoker import RVData

    from .. import seams

    mjd = np.array(case["t"], dtype=float) + T0
    v = 11.0 + 3.0 * np.arange(len(mjd))
    e = 0.5 + 0.25 * np.arange(len(mjd))
    ts = TimeSeries(time=Time(mjd, format="mjd", scale=case["scale"]), data={"rv": v * u.km / u.s, "rv_err": e * u.km / u.s})
    want_tref = None
    if case["meta"] == "none_value":
        ts.meta["t_ref"] = None
    elif case["meta"] == "time":
        ts.meta["t_ref"] = Time(T0 - 7.0, format="mjd", scale="tcb")
        want_tref = T0 - 7.0
    elif case["meta"] == "other_keys":
        ts.meta["observer"] = "someone"
    fn = os.path.join(seams.fresh_dir("c15"), "plain-%d.hdf5" % os.getpid())
    if os.path.exists(fn):
        os.unlink(fn)
    try:
        ts.write(fn, path="rvdata", serialize_meta=True)
        d = RVData.from_timeseries(fn, path="rvdata")
    except Exception as ex:
        part.violation(case, f"from_timeseries raised {type(ex).__name__}: {str(ex)[:200]}")
        return
    finally:
        if os.path.exists(fn):
            os.unlink(fn)
    want_t = Time(mjd, format="mjd", scale=case["scale"]).tcb.mjd
    t, vv, ee = _state(d)
    got = sorted(zip(np.round(t, 8).tolist(), vv.tolist(), ee.tolist()))
    want = sorted(zip(np.round(want_t, 8).tolist(), v.tolist(), e.tolist()))
    part.record(case, outcome=(case["meta"], case["scale"]), nontrivial=True)
    if got != want:
        part.violation(case, "from_timeseries does not hold the observations of the TimeSeries", expected=want, observed=got)
        return
    if want_tref is None:
        want_tref = float(np.min(want_t))
    if d.t_ref is None or abs(float(d.t_ref.tcb.mjd) - want_tref) > 1e-8 or abs(float(d._t_ref_bmjd) - want_tref) > 1e-8:
        part.violation(case, "from_timeseries: reference epoch is not the one stored with the table / does not default to the earliest time",
                       expected=want_tref, observed=None if d.t_ref is None else float(d.t_ref.tcb.mjd))


def check_guess(case, part):
    """RVData.guess_from_table: the object holds the table's observations, read with the caller's time format / scale"""
    import astropy.units as u
    from astropy.table import Table
    from astropy.time import Time
    from thejoker import RVData

    n = 4
    mjd = np.array([T0 + 3.5, T0 + 1.25, T0 + 40.0, T0 + 2.0])
    tvals = mjd + 2400000.5 if case["tkind"] in ("jd", "bjd") else mjd
    v = np.array([11.0, 14.0, 17.0, 20.0])
    e = np.array([0.5, 0.75, 1.0, 1.25])
    tbl = Table()
    tbl[case["tname"]] = tvals
    tbl[case["vname"]] = v * u.km / u.s
    tbl[case["ename"].replace("{rv}", case["vname"].lower())] = e * u.km / u.s
    kw = dict(case["time_kwargs"])
    try:
        d = RVData.guess_from_table(tbl, time_kwargs=dict(kw) if kw else None)
    except Exception as ex:
        part.violation(case, f"guess_from_table raised {type(ex).__name__}: {str(ex)[:200]}")
        return
    # what the caller asked for: explicit format/scale win; b-columns default to TCB; otherwise astropy's default scale (UTC)
    fmt = kw.get("format", "jd" if case["tkind"] in ("jd", "bjd") else "mjd")
    scale = kw.get("scale", "tcb" if case["tkind"] in ("bjd", "bmjd") else "utc")
    want_t = Time(tvals, format=fmt, scale=scale).tcb.mjd
    t, vv, ee = _state(d)
    got = sorted(zip(np.round(t, 8).tolist(), vv.tolist(), ee.tolist()))
    want = sorted(zip(np.round(want_t, 8).tolist(), v.tolist(), e.tolist()))
    part.record(case, outcome=(fmt, scale), nontrivial=bool(kw))
    if got != want:
        part.violation(case, "guess_from_table: the RVData does not hold the table's observations at the epochs the caller's time format / scale define",
                       expected=want, observed=got)


def shard(cases):
    part = core.Part()
    for c in cases:
        core.guard(run_case, c, part)
    return part


def build_cases(quick):
    cases = []
    nmax = 3 if quick else 4
    for n in range(1, nmax + 1):
        for tt in itertools.product(range(4), repeat=n):
            for vbad in itertools.product([0, 1], repeat=n):
                for ebad in itertools.product([0, 1], repeat=n):
                    if n == 4 and sum(vbad) + sum(ebad) > 2:
                        continue  # thorough N=4: at most two non-finite values besides time NaNs
                    for clean in (True, False):
                        anybad = (3 in tt) or any(vbad) or any(ebad)
                        if not clean and anybad:
                            continue
                        for tfmt in ("float", "time"):
                            if tfmt == "time" and 3 in tt:
                                continue  # astropy Time cannot hold a NaN epoch
                            for unit in ("km/s", "m/s"):
                                for tref in ("default", "explicit", "false"):
                                    # chains only on a sub-product (they dominate the cost)
                                    depth = 0
                                    if unit == "km/s" and tfmt == "time" and not anybad:
                                        depth = 2 if (quick or n == 4) else 3
                                    cases.append(dict(t=list(tt), vbad=list(vbad), ebad=list(ebad), clean=clean,
                                                      tfmt=tfmt, unit=unit, t_ref=tref, depth=depth))
                                    if unit == "km/s" and tfmt == "float":
                                        # sort=False: same observations, held in input order; copy/slice re-sort (depth 1)
                                        cases.append(dict(t=list(tt), vbad=list(vbad), ebad=list(ebad), clean=clean, tfmt=tfmt, unit=unit,
                                                          t_ref=tref, depth=1 if not anybad else 0, sort=False))
    # covariance input: every permutation of 3 epochs, non-finite entries on/off the diagonal
    for perm in itertools.permutations(range(3)):
        for covbad in ([], [(0, 0)], [(1, 1)], [(0, 1)], [(1, 2)], [(0, 2)], [(0, 1), (2, 2)]):
            for vbad in ([0, 0, 0], [0, 1, 0]):
                for tref in ("default", "explicit"):
                    for tfmt in ("float", "time"):
                        anybad = bool(covbad) or any(vbad)
                        cases.append(dict(t=list(perm), vbad=vbad, ebad=[0, 0, 0], cov=True, covbad=[list(c) for c in covbad],
                                          clean=True, tfmt=tfmt, unit="km/s", t_ref=tref, depth=0 if anybad else 2))
                        if not anybad:
                            for sc in (1e-10, 1e6):
                                cases.append(dict(t=list(perm), vbad=vbad, ebad=[0, 0, 0], cov=True, covbad=[], covscale=sc,
                                                  clean=True, tfmt=tfmt, unit="km/s", t_ref=tref, depth=1))
    # guess_from_table: column-name variants x caller-supplied time keywords
    for tname, tkind in (("jd", "jd"), ("MJD", "mjd"), ("bjd", "bjd"), ("BMJD", "bmjd"), ("t", "mjd"), ("time", "jd")):
        for vname in ("rv", "vhelio", "VRAD"):
            for ename in ("{rv}_err", "e_{rv}", "{rv}err"):
                for tk in ({}, {"scale": "tdb"}, {"scale": "utc"}, {"scale": "tcb"}, {"format": "jd" if tkind in ("jd", "bjd") else "mjd", "scale": "tt"}):
                    cases.append(dict(kind="guess", tname=tname, tkind=tkind, vname=vname, ename=ename, time_kwargs=tk))
    # plain TimeSeries files (not written by to_timeseries)
    for tt in ([3.5, 1.25, 40.0], [0.0], [5.0, 5.0, 2.0, 9.5]):
        for scale in ("tcb", "utc"):
            for meta in ("absent", "none_value", "time", "other_keys"):
                cases.append(dict(kind="ts_plain", t=tt, scale=scale, meta=meta))
    return cases


def main():
    chk = core.Check(
        PID, "exploration",
        "every time tuple of length<=3 (quick) / 4 over {t1<t2<t3, NaN} (all orders and duplicates) x every non-finite "
        "placement in velocities and errors x clean x float-BMJD/Time input x unit x t_ref {default, explicit, False}; "
        "covariance input: every permutation of 3 epochs x non-finite entries on/off the diagonal; chains (depth<=2 quick / 3) "
        "of copy and every slice / index array / mask; covariance scales 1e-10 and 1e6; guess_from_table over column-name variants x time keywords. Non-trivial: input unsorted, has tied times or loses an observation.",
    )
    cases = build_cases(chk.quick)
    chk.bounds = {"construction_cases": len(cases), "chain_depth": 2 if chk.quick else 3}
    chk.merge(core.parallel(shard, core.interleave(cases, core.NPROC * 4)))
    chk.assumptions += ["astropy Time/Quantity arithmetic", "clean=False with non-finite input is outside what the property fixes (skipped)",
                        "inputs whose observations are all non-finite are skipped (an empty RVData is not addressed by the property)"]
    return chk.finish(run_case)


def replay(doc):
    part = core.Part()
    run_case(doc["case"], part)
    for v in part.violations:
        print("REPRODUCED:", v["msg"], "\n expected:", v.get("expected"), "\n observed:", v.get("observed"))
    print("violations:", len(part.violations))
    return 1 if part.violations else 0
