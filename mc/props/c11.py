"""C11 — MCMC continuation targets the same model and posterior as the sampler (E1)."""
import itertools

import numpy as np

from .. import core, seams
from .. import problems as pb
from ..ref import kepler, marginal

PID = "C11"
KIP = (0.867, 3.03)


def build(cfg, seed):
    """prior (+declared numbers in km/s / day), data, inside a fresh pymc model"""
    import astropy.units as u
    import pymc as pm
    import thejoker as tj
    import thejoker.units as xu
    from astropy.time import Time

    pt_, no = cfg["poly_trend"], cfg["n_offsets"]
    units = cfg["units"]
    Pu = u.yr if units == "P_yr" else u.day
    vu = u.m / u.s if units == "prior_ms" else u.km / u.s
    vf = 1000.0 if units == "prior_ms" else 1.0
    sig_v = (40.0, 0.8, 0.02)
    off_sig = (3.0, 5.0)
    model = pm.Model()
    with model:
        # "off_ms": only the survey offsets are declared in m/s (every linear parameter carries its OWN unit)
        of = 1000.0 if units in ("prior_ms", "off_ms") else 1.0
        ou = u.m / u.s if units in ("prior_ms", "off_ms") else u.km / u.s
        offs = [xu.with_unit(pm.Normal(f"dv0_{k + 1}", 0.0, off_sig[k] * of), ou) for k in range(no)]
        kw = {}
        if cfg["jitter"] == "sampled":
            kw["s"] = xu.with_unit(pm.LogNormal("s", np.log(0.5 * vf), 0.7), vu)
        else:
            kw["s"] = 0.3 * vf * vu
        sv = [sig_v[i] * vf * vu / u.day**i for i in range(pt_)]
        if cfg.get("e_fixed0"):
            # circular orbits only: the eccentricity is pinned to 0 (the documented way: a Deterministic constant); omega still
            # shifts the phase of the curve
            import pytensor.tensor as ptt

            kw["pars"] = {"e": xu.with_unit(pm.Deterministic("e", ptt.constant(0.0)), u.one)}
        prior = tj.JokerPrior.default(P_min=(1.5 * u.day).to(Pu), P_max=(900 * u.day).to(Pu), sigma_K0=25.0 * vf * vu, P0=365.25 * u.day,
                                      sigma_v=sv if pt_ > 1 else sv[0], poly_trend=pt_, v0_offsets=offs, model=model, **kw)
    n = 4 + no
    j = np.array([core.seeded_jitter(seed, "c11", k) for k in range(n)])
    t = pb.T0 + np.sort(np.arange(n) * 3.1 + j)
    y = 9.0 * np.sin(np.arange(n) * 1.3 + 0.4) + 2.0 + j
    sig = 0.4 + 0.3 * (np.arange(n) % 3)
    labels = np.zeros(n, dtype=int)
    err_unit = u.m / u.s if units == "err_ms" else u.km / u.s
    ef = 1000.0 if units == "err_ms" else 1.0
    t_ref_val = float(t.min())
    if no == 0:
        kwd = {}
        if cfg.get("tref") == "utc":
            # explicit reference epoch given in another time scale than the internal barycentric one
            tr = Time(pb.T0 - 2.5, format="mjd", scale="utc")
            kwd["t_ref"] = tr
            t_ref_val = float(tr.tcb.mjd)
        elif cfg.get("tref") == "tcb":
            tr = Time(pb.T0 + 4.25, format="mjd", scale="tcb")
            kwd["t_ref"] = tr
            t_ref_val = float(tr.tcb.mjd)
        data = tj.RVData(Time(t, format="mjd", scale="tcb"), y * u.km / u.s, sig * ef * err_unit, **kwd)
    else:
        data = []
        bounds = np.linspace(0, n, no + 2).astype(int)
        # interleave the surveys in time: survey k owns epochs k, k+S, ...
        S = no + 1
        for k in range(S):
            idx = np.arange(n)[k::S]
            labels[idx] = k
            data.append(tj.RVData(Time(t[idx], format="mjd", scale="tcb"), y[idx] * u.km / u.s, sig[idx] * ef * err_unit))
    dec = dict(e_fixed0=bool(cfg.get("e_fixed0")), sig_v=sig_v[:pt_], off_sig=off_sig[:no], sigma_K0=25.0, P0=365.25, vf=vf, of=of, Pf=(1 * u.day).to_value(Pu), jitter=cfg["jitter"])
    return model, prior, data, dict(t=t, y=y, sig=sig, labels=labels, t_ref=t_ref_val), dec


def ref_lnprior(dec, th, x, pt_, no):
    import scipy.stats as st

    P, e, om, M0, s = th
    lp = -np.log(P) + (0.0 if dec.get("e_fixed0") else st.beta(*KIP).logpdf(e))
    if dec["jitter"] == "sampled":
        # declared: LogNormal(ln(0.5), 0.7) in km/s (the unit factor shifts ln s by a constant)
        lp += st.lognorm(0.7, scale=0.5).logpdf(s)
    sK = min(dec["sigma_K0"] * (P / dec["P0"]) ** (-1 / 3.0) / np.sqrt(1 - e * e), 500.0)
    lp += st.norm(0, sK).logpdf(x[0])
    lp += st.norm(0, dec["sig_v"][0]).logpdf(x[1])
    for k in range(no):
        lp += st.norm(0, dec["off_sig"][k]).logpdf(x[2 + k])
    for i in range(1, pt_):
        lp += st.norm(0, dec["sig_v"][i]).logpdf(x[1 + no + i])
    return lp


def point_for(model, dec, th, x, pt_, no):
    """value-variable point for physical parameters th=(P[d], e, omega, M0, s[km/s]), x in km/s (/day^i)"""
    P, e, om, M0, s = th
    vf, Pf = dec["vf"], dec["Pf"]
    pnt = {"P": np.array(P * Pf), "e_logodds__": np.array(np.log(e / (1 - e))),
           "__omega_angle1": np.array(np.sin(om)), "__omega_angle2": np.array(np.cos(om)),
           "__M0_angle1": np.array(np.sin(M0)), "__M0_angle2": np.array(np.cos(M0)),
           "K": np.array(x[0] * vf), "v0": np.array(x[1] * vf)}
    for k in range(no):
        pnt[f"dv0_{k + 1}"] = np.array(x[2 + k] * dec["of"])
    for i in range(1, pt_):
        pnt[f"v{i}"] = np.array(x[1 + no + i] * vf)
    if dec["jitter"] == "sampled":
        pnt["s_log__"] = np.array(np.log(s * vf))
    if dec.get("e_fixed0"):
        del pnt["e_logodds__"]
    names = {v.name for v in model.value_vars}
    assert names == set(pnt), (names, set(pnt))
    return pnt


def check_config(cfg, seed, part):
    import astropy.units as u
    import thejoker as tj

    pt_, no = cfg["poly_trend"], cfg["n_offsets"]
    model, prior, data, dd, dec = build(cfg, seed)
    case0 = dict(kind="config", cfg=cfg, seed=seed)
    L = 1 + pt_ + no
    # samples handed to setup_mcmc: several rows -> the median-period row must be chosen
    Ps = np.array([7.0, 3.3, 41.0, 12.5, 5.0])
    nrows = cfg.get("n_init", 5)
    # "rows_tref": the samples handed over carry an epoch of their own (from another run / file / a slice of the data); the model
    # is the sampler's model for THIS data set, i.e. relative to the data's reference epoch
    rows_tref = None
    if cfg.get("rows_tref"):
        from astropy.time import Time as _T

        rows_tref = _T(dd["t_ref"] - 4.21, format="mjd", scale="tcb")
    rows = tj.JokerSamples(poly_trend=pt_, n_offsets=no, t_ref=rows_tref)
    rows["P"] = Ps[:nrows] * u.day
    rows["e"] = np.linspace(0.1, 0.5, nrows)
    rows["omega"] = (np.linspace(0.3, 5.0, nrows) * u.rad).to(u.deg)
    rows["M0"] = np.linspace(0.2, 6.0, nrows) * u.rad
    rows["s"] = np.linspace(0.1, 0.9, nrows) * u.km / u.s
    rows["K"] = (np.linspace(-4.0, 9.0, nrows) * u.km / u.s).to(u.m / u.s)
    lin_names = ["v0"] + [f"dv0_{k}" for k in range(1, no + 1)] + [f"v{i}" for i in range(1, pt_)]
    for c, nm in enumerate(lin_names):
        rows[nm] = (np.linspace(-1.0, 2.0, nrows) + 0.1 * c) * (u.km / u.s / u.day ** (int(nm[1:]) if nm.startswith("v") else 0))
    if cfg.get("logprobs"):
        # samples that carry log-probabilities (as returned with return_logprobs=True); the best row is NOT the median-period row
        rows["ln_prior"] = -np.arange(nrows, dtype=float)
        rows["ln_likelihood"] = -10.0 * np.abs(np.arange(nrows) - 2.0)
    joker = tj.TheJoker(prior)

    def snapshot(d):
        ds = d if isinstance(d, list) else [d]
        return [(np.array(x._t_bmjd).copy(), np.array(x.rv.value).copy(), np.array(x.rv_err.value).copy(), str(x.rv.unit), str(x.rv_err.unit), float(x._t_ref_bmjd)) for x in ds]

    before = snapshot(data)
    rows_before = {k: np.array(rows.tbl[k].value if hasattr(rows.tbl[k], "value") else rows.tbl[k]).copy() for k in rows.par_names}
    try:
        if cfg.get("reuse"):
            # call history on ONE data object: another model is built from the same data first
            import pymc as pm

            m0, p0, _, _, _ = build(dict(cfg, poly_trend=1 if cfg["poly_trend"] > 1 else 2, n_offsets=cfg["n_offsets"], reuse=False), seed)
            with m0:
                r0 = tj.JokerSamples(poly_trend=p0.poly_trend, n_offsets=p0.n_offsets)
                for k in ("P", "e", "omega", "M0", "s", "K", "v0"):
                    r0[k] = rows[k][:1]
                for k in p0.par_names:
                    if k not in r0.par_names:
                        r0[k] = [0.01] * (u.km / u.s / u.day ** (int(k[1:]) if k.startswith("v") else 0))
                tj.TheJoker(p0).setup_mcmc(data, r0)
        hook_seen = []

        def hook(mcmc_init, chosen, mdl):
            # the documented hook: derives extra entries of the initial point from the sample setup_mcmc chose
            hook_seen.append((len(chosen), np.atleast_1d(chosen["P"].to_value(u.day)).tolist(), mdl is model))
            out = dict(mcmc_init)
            out["__derived"] = np.atleast_1d(chosen["M0"].to_value(u.rad)) - np.atleast_1d(chosen["omega"].to_value(u.rad))
            return out

        import random as _random

        np.random.seed(1234)
        np.random.normal()
        _random.seed(99)
        g0 = (np.random.get_state()[1].tobytes(), np.random.get_state()[2:], _random.getstate())
        with model:
            init = joker.setup_mcmc(data, rows, **({"custom_func": hook} if cfg.get("hook") else {}))
        g1 = (np.random.get_state()[1].tobytes(), np.random.get_state()[2:], _random.getstate())
        if g0 != g1:
            part.violation(dict(case0, part="global_random_state"), "setup_mcmc read or changed numpy's / Python's global random state")
            return
    except Exception as e:
        part.violation(case0, f"setup_mcmc raised {type(e).__name__}: {str(e)[:300]}")
        return
    after = snapshot(data)
    for b_, a_ in zip(before, after):
        if not all(np.array_equal(x, y) if isinstance(x, np.ndarray) else x == y for x, y in zip(b_, a_)):
            part.violation(dict(case0, part="inputs"), "setup_mcmc modified the data object it was given", expected=[x.tolist() if isinstance(x, np.ndarray) else x for x in b_],
                           observed=[x.tolist() if isinstance(x, np.ndarray) else x for x in a_])
            return
    for k, v in rows_before.items():
        now = np.array(rows.tbl[k].value if hasattr(rows.tbl[k], "value") else rows.tbl[k])
        if not np.array_equal(v, now):
            part.violation(dict(case0, part="inputs"), f"setup_mcmc modified column {k} of the samples it was given", expected=v, observed=now)
            return
    # (4) initial point = chosen sample in the prior's units
    j = int(np.argsort(Ps[:nrows])[nrows // 2]) if nrows > 1 else 0
    vf, Pf = dec["vf"], dec["Pf"]
    want_init = {"P": Ps[j] * Pf, "e": np.linspace(0.1, 0.5, nrows)[j], "omega": np.linspace(0.3, 5.0, nrows)[j], "M0": np.linspace(0.2, 6.0, nrows)[j],
                 "s": np.linspace(0.1, 0.9, nrows)[j] * vf, "K": np.linspace(-4.0, 9.0, nrows)[j] * vf}
    for c, nm in enumerate(lin_names):
        want_init[nm] = (np.linspace(-1.0, 2.0, nrows)[j] + 0.1 * c) * (dec["of"] if nm.startswith("dv0_") else vf)
    part.evals += 1
    for k, w in want_init.items():
        if k not in init or not np.allclose(float(init[k]), w, rtol=1e-10, atol=1e-12):
            part.violation(dict(case0, part="mcmc_init"), f"mcmc_init['{k}'] is not the chosen (median-period) sample expressed in the prior's units",
                           expected=w, observed=None if k not in init else float(init[k]))
            return
    if cfg.get("hook"):
        wd = want_init["M0"] - want_init["omega"]
        ok = len(hook_seen) == 1 and hook_seen[0][0] == 1 and np.allclose(hook_seen[0][1], [Ps[j]]) and hook_seen[0][2] and "__derived" in init and \
            np.ndim(init["__derived"]) == 0 and np.isclose(float(init["__derived"]), wd)
        if not ok:
            part.violation(dict(case0, part="custom_func"), "custom_func must be called once with the current initial point, the ONE chosen sample and the model, and its "
                           "result must be the returned initial point", expected=dict(n=1, P=[Ps[j]], derived=wd),
                           observed=dict(calls=hook_seen, derived=None if "__derived" not in init else np.asarray(init["__derived"]).tolist()))
            return
        init = {k: v for k, v in init.items() if k != "__derived"}
    if set(init) != set(want_init):
        part.violation(dict(case0, part="mcmc_init"), "mcmc_init keys differ from the prior's parameters", expected=sorted(want_init), observed=sorted(init))
        return
    # (5) from_inference_data: MCMC draws come back as samples in the PRIOR's units, with the data's reference epoch
    try:
        import arviz as az

        nd = 4
        post = {}
        for k, w in want_init.items():
            post[k] = (np.array(w) * (1.0 + 0.1 * np.arange(nd)))[None, :]
        post["logp"] = (-3.0 - np.arange(nd))[None, :]
        post["ln_likelihood"] = (-2.0 - np.arange(nd))[None, :]
        post["ln_prior"] = (-1.0 - 0.5 * np.arange(nd))[None, :]
        div = np.array([[False, True, False, False]])
        idata = az.from_dict({"posterior": post, "sample_stats": {"diverging": div}})
        fs = tj.JokerSamples.from_inference_data(prior, idata, data, prune_divergences=True)
        keep = ~div[0]
        import thejoker.units as xu

        for k, w in want_init.items():
            unit = getattr(prior.pars[k], xu.UNIT_ATTR_NAME)
            got = fs[k].to_value(unit) if hasattr(fs[k], "to_value") else np.asarray(fs[k])
            if not np.allclose(got, post[k][0][keep], rtol=1e-12, atol=0):
                part.violation(dict(case0, part="from_inference_data", par=k), "from_inference_data does not return the MCMC draws as values in the prior's own units "
                               "(divergent draws removed)", expected=post[k][0][keep], observed=got)
                return
        if fs.t_ref is None or abs(float(fs.t_ref.tcb.mjd) - dd["t_ref"]) > 1e-9 or fs.poly_trend != pt_ or fs.n_offsets != no:
            part.violation(dict(case0, part="from_inference_data"), "from_inference_data: reference epoch / poly_trend / n_offsets not those of the data and prior",
                           expected=(dd["t_ref"], pt_, no), observed=(None if fs.t_ref is None else float(fs.t_ref.tcb.mjd), fs.poly_trend, fs.n_offsets))
            return
        # the posterior group alone (documented alternative input): every draw comes back, nothing can be pruned
        fs2 = tj.JokerSamples.from_inference_data(prior, idata.posterior, data, prune_divergences=False)
        for k, w in want_init.items():
            unit = getattr(prior.pars[k], xu.UNIT_ATTR_NAME)
            got = fs2[k].to_value(unit) if hasattr(fs2[k], "to_value") else np.asarray(fs2[k])
            if not np.allclose(got, post[k][0], rtol=1e-12, atol=0):
                part.violation(dict(case0, part="from_inference_data", par=k, input="posterior group"), "from_inference_data(posterior group) does not return "
                               "every MCMC draw as values in the prior's own units", expected=post[k][0], observed=got)
                return
        for col, src in (("ln_posterior", "logp"), ("ln_likelihood", "ln_likelihood"), ("ln_prior", "ln_prior")):
            if not np.array_equal(np.asarray(fs[col], dtype=float), post[src][0][keep]):
                part.violation(dict(case0, part="from_inference_data"), f"from_inference_data: column {col} is not the chain's {src}", expected=post[src][0][keep],
                               observed=np.asarray(fs[col], dtype=float))
                return
    except Exception as e:
        part.violation(dict(case0, part="from_inference_data"), f"from_inference_data raised {type(e).__name__}: {str(e)[:200]}")
        return
    # compile the model's outputs once
    try:
        names = ["model_rv", "ln_likelihood", "logp", "ln_prior"]
        outs = model.replace_rvs_by_values([model[n] for n in names])
        f = model.compile_fn(outs)
        flp = model.compile_fn(model.logp(jacobian=False))
    except Exception as e:
        part.violation(case0, f"compiling the model raised {type(e).__name__}: {str(e)[:300]}")
        return
    thetas = [(3.3, 0.1, 1.3, 2.1, 0.3), (41.7, 0.6, 4.0, 5.5, 0.3), (365.25, 0.3, 0.4, 0.7, 0.3), (2.1, 0.85, 6.0, 3.0, 0.3),
              (1.6, 0.96, 2.0, 1.0, 0.3)]  # last: the K-prior variance cap binds only through the eccentricity factor
    if dec.get("e_fixed0"):
        thetas = [(t[0], 0.0) + t[2:] for t in thetas]
    if dec["jitter"] == "sampled":
        thetas = [t[:4] + (s,) for t, s in zip(thetas, (0.2, 1.1, 0.05, 0.6, 0.4))]
    xs = [np.array([5.0, 1.0] + [0.5, -0.7][:no] + [0.02, -0.001][: pt_ - 1]), np.array([-12.0, -3.0] + [-1.5, 2.0][:no] + [-0.05, 0.002][: pt_ - 1]),
          np.array([0.3, 20.0] + [0.0, 0.1][:no] + [0.0, 0.0][: pt_ - 1])]
    ref_tot, imp_tot = [], []
    for th in thetas:
        z = kepler.zfunc(dd["t"], th[0], th[1], th[2], th[3], dd["t_ref"])
        M = marginal.design(dd["t"], dd["t_ref"], dd["labels"], pt_, no, z)
        for x in xs:
            case = dict(case0, theta=list(th), x=x.tolist())
            part.evals += 1
            pnt = point_for(model, dec, th, x, pt_, no)
            try:
                mrv, lnl, lgp, lnpr = [np.asarray(v) for v in f(pnt)]
                lp_phys = float(flp(pnt))
            except Exception as e:
                part.violation(case, f"evaluating the model raised {type(e).__name__}: {str(e)[:200]}")
                return
            want_rv = M @ x
            # the merged data keep the concatenation order of the sources: map by time
            order = _data_order(dd, no)
            if not np.allclose(mrv, want_rv[order], rtol=1e-8, atol=1e-8 * (np.abs(x[0]) + 1)):
                part.violation(case, "model_rv of the MCMC model is not the sampler's model M(theta) x (phase / reference epoch / offset / trend / unit convention)",
                               expected=want_rv[order], observed=mrv)
                return
            var = dd["sig"] ** 2 + th[4] ** 2
            want_lnl = float(np.sum(-0.5 * (np.log(2 * np.pi * var) + (dd["y"] - want_rv) ** 2 / var)))
            if abs(float(lnl) - want_lnl) > 1e-7 * (1 + abs(want_lnl)):
                part.violation(case, "the stored ln_likelihood diagnostic is not ln N(y | model, sigma^2 + s^2)", expected=want_lnl, observed=float(lnl))
                return
            ref_tot.append(ref_lnprior(dec, th, x, pt_, no) + want_lnl)
            imp_tot.append(lp_phys)
            part.outcomes.add(core.okey((round(want_lnl, 6),)))
    ref_tot, imp_tot = np.array(ref_tot), np.array(imp_tot)
    d = (imp_tot - imp_tot[0]) - (ref_tot - ref_tot[0])
    if np.max(np.abs(d)) > 1e-6 * (1 + np.max(np.abs(ref_tot - ref_tot[0]))):
        k = int(np.argmax(np.abs(d)))
        part.violation(dict(case0, part="logp", point=k), "log-density of the MCMC model over the physical parameters differs from ln prior(declared) + ln N(y | model, "
                       "sigma^2+s^2) by more than a constant", expected=(ref_tot - ref_tot[0]).tolist(), observed=(imp_tot - imp_tot[0]).tolist())
        return
    part.nontrivial.add(core.okey(cfg))
    if len(part.samples) < 2:
        part.samples.append(core.jsonable(dict(case0, points=len(ref_tot), logp_differences=(imp_tot - imp_tot[0])[:4])))


def _data_order(dd, no):
    """row order of the merged data set (sources concatenated: survey 0 rows, then survey 1, ...)"""
    if no == 0:
        return np.arange(len(dd["t"]))
    return np.concatenate([np.where(dd["labels"] == k)[0] for k in range(no + 1)])


def shard(items, seed=0):
    part = core.Part()
    for cfg in items:
        try:
            check_config(cfg, seed, part)
        except AssertionError as e:
            part.violation(dict(kind="config", cfg=cfg), f"value variables of the model are not the expected ones: {e}")
    return part


def run_case(case, part):
    check_config(case["cfg"], case.get("seed", 0), part)


def configs(quick):
    out = []
    for pt_, no, jit, un in itertools.product((1, 2, 3), (0, 1, 2), ("constant", "sampled"), ("default", "P_yr", "prior_ms", "err_ms")):
        if quick and (pt_ + no + (jit == "sampled") + ["default", "P_yr", "prior_ms", "err_ms"].index(un)) % 3 != 0:
            continue
        out.append(dict(poly_trend=pt_, n_offsets=no, jitter=jit, units=un, n_init=5 if (pt_ + no) % 2 else 1))
    for pt_, no, jit in ((1, 1, "constant"), (2, 2, "sampled"), (3, 1, "constant")):
        out.append(dict(poly_trend=pt_, n_offsets=no, jitter=jit, units="off_ms", n_init=5 if pt_ == 2 else 1))
    for pt_, no, jit in ((1, 0, "constant"), (2, 0, "sampled"), (2, 1, "constant"), (3, 0, "constant")):
        out.append(dict(poly_trend=pt_, n_offsets=no, jitter=jit, units="default", n_init=1 if pt_ == 1 else 5, rows_tref=True))
    for pt_, no, jit in ((1, 0, "constant"), (2, 1, "sampled")):
        out.append(dict(poly_trend=pt_, n_offsets=no, jitter=jit, units="default", n_init=1, e_fixed0=True))
    for pt_, no, jit in ((1, 0, "constant"), (2, 1, "sampled"), (3, 0, "constant"), (2, 2, "constant")):
        out.append(dict(poly_trend=pt_, n_offsets=no, jitter=jit, units="default", n_init=5, logprobs=True))
        out.append(dict(poly_trend=pt_, n_offsets=no, jitter=jit, units="prior_ms" if no else "default", n_init=5, hook=True))
        out.append(dict(poly_trend=pt_, n_offsets=no, jitter=jit, units="default", n_init=1, hook=True))
        out.append(dict(poly_trend=pt_, n_offsets=no, jitter=jit, units="default", n_init=1, reuse=True))
    for pt_ in (1, 2, 3):
        for tref in ("utc", "tcb"):
            if quick and (pt_ == 3 or (pt_ == 1 and tref == "tcb")):
                continue
            out.append(dict(poly_trend=pt_, n_offsets=0, jitter="constant", units="default", n_init=1, tref=tref))
    return out


def main():
    chk = core.Check(
        PID, "exploration",
        "configurations poly_trend 1..3 x offsets 0..2 (surveys interleaved in time) x jitter {constant, sampled} x units {all default; "
        "period prior in yr; K / trend / offset / jitter priors in m/s with data in km/s; errors in another unit than the velocities} "
        "(72; quick: a 24-configuration third) plus explicit reference epochs given in UTC / TCB, samples carrying ln_prior / ln_likelihood columns, a custom_func hook (must see the one chosen sample), and a call "
        "history in which another model was built from the SAME data object first (inputs must come back unmodified): setup_mcmc is called with 1 or 5 samples (columns in foreign units), the model's "
        "model_rv / ln_likelihood / logp(jacobian=False) are compiled once with RVs replaced by values and evaluated on 5 theta (one where the K-variance cap binds only through 1/sqrt(1-e^2)) x 3 "
        "linear-parameter points: model_rv = M(theta) x (reference Kepler solver and design matrix), ln_likelihood = ln N(y|model, "
        "sigma^2+s^2), differences of the log-density = differences of declared prior + Gaussian term, mcmc_init = median-period sample "
        "in the prior's units, and JokerSamples.from_inference_data gives the chain back in the prior's units with divergent draws removed. Non-trivial: a configuration passing all four.",
    )
    cfgs = configs(chk.quick)
    chk.bounds = {"configurations": len(cfgs), "points_per_configuration": 12}
    chk.merge(core.parallel(shard, core.interleave(cfgs, core.NPROC), seed=chk.seed))
    chk.assumptions += ["pymc / pytensor graph evaluation is trusted; angles are entered as unit vectors so the circular parameterisation contributes a constant",
                        "declared densities: log-uniform P, Kipping13Global e, capped Normal K, Normal trend/offset terms, LogNormal jitter when sampled"]
    return chk.finish(run_case)


def replay(doc):
    part = core.Part()
    run_case(doc["case"], part)
    for v in part.violations:
        print("REPRODUCED:", v["msg"], "\n expected:", v.get("expected"), "\n observed:", v.get("observed"))
    print("violations:", len(part.violations))
    return 1 if part.violations else 0
