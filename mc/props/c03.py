"""C03 — linear parameters are drawn from the exact conditional posterior N(a, A) (E1 with recording Generator)."""
import os

import numpy as np

from .. import core, seams
from .. import problems as pb
from ..numoracle import PostOracle
from . import c01

PID = "C03"

_REC_LOG = []


class _RecGen(np.random.Generator):
    """Stands in for numpy.random.Generator while thejoker builds its per-task child generators itself (file path):
    identical draws (same bit generator), every multivariate_normal call recorded in _REC_LOG."""

    def multivariate_normal(self, mean, cov, size=None, **kw):
        out = super().multivariate_normal(np.asarray(mean), np.asarray(cov), size=size, **kw)
        _REC_LOG.append(("mvn", np.array(mean, dtype=float), np.array(cov, dtype=float), size, np.array(out)))
        return out


def theta_rows(seed, sigbar, quick):
    th = c01.theta_grid(True, seed, sigbar)
    th = th[th[:, 1] <= 0.99]
    step = 5 if quick else 2
    th = th[::step].copy()
    # make every row identifiable by its period
    th[:, 0] *= 1.0 + 1e-7 * np.arange(len(th))
    return th


def check_cell(cfg, sh, nl, path, seed, part, prior, dec, joker_factory):
    import astropy.units as u
    import thejoker as tj

    t_ref = pb.shape_tref(sh, cfg["n_offsets"])
    data, dd = pb.make_data(n=sh["n"], raw=sh.get("raw", "clean"), container=sh.get("container", "list"), sliced=sh.get("sliced", False), layout=sh["layout"], err=sh["err"], unit=sh["unit"], t_ref=t_ref, seed=seed, n_surveys=cfg["n_offsets"] + 1, t_ref_scale=("utc" if sh["n"] % 2 else "tcb"), interleave=(not sh["tref"]))
    problem = pb.ref_problem(dd, dec)
    theta = theta_rows(seed, float(np.mean(dd["sig"])), part.extra.get("_quick", True))
    th_ref = theta.copy()
    th_ref[:, 4] *= dd["factor"]
    orc = PostOracle(problem, th_ref)
    case0 = dict(kind="cell", cfg=cfg, shape=sh, n_linear=nl, path=path, seed=seed)
    dunit = u.km / u.s if sh["unit"] == "km/s" else u.m / u.s
    names = ["K", "v0"] + [f"dv0_{k}" for k in range(1, cfg["n_offsets"] + 1)] + [f"v{i}" for i in range(1, cfg["poly_trend"])]

    def run(rows_idx):
        """returns list of (row index, record, returned block) for the given library rows"""
        lib = pb.make_samples(theta[rows_idx])
        rng = seams.ScriptedGenerator(5 + seed, uniform_fn=lambda size, k: np.zeros(int(size)))
        joker = joker_factory(rng)
        del _REC_LOG[:]
        if path == "inmem":
            res = joker.rejection_sample(data, lib, in_memory=True, n_linear_samples=nl)
            recs = [e for e in rng.log if e[0] == "mvn"]
        else:
            orig = np.random.Generator
            np.random.Generator = _RecGen
            try:
                res = joker.rejection_sample(data, lib, n_linear_samples=nl, n_batches=3)
            finally:
                np.random.Generator = orig
            recs = list(_REC_LOG)
        return res, recs

    todo = list(range(len(theta)))
    first = True
    while todo:
        idx = todo if first else todo[:1]
        try:
            res, recs = run(idx)
        except Exception as e:
            # K4: NaN mean/cov make numpy's multivariate_normal raise (SVD did not converge) - attributable
            from ..numoracle import triggered_post

            if "K4" in triggered_post(problem, th_ref[idx[0]]):
                part.known_finding("K4", case0, f"rejection_sample raised {type(e).__name__} (NaN posterior)")
                part.evals += len(idx)
                return
            # K6: on a numerically singular problem (cond > 1e14) the kernel returns -inf, nothing is accepted and the empty
            # batch makes the sampler raise - attributable only with that conditioning
            from ..numoracle import LnLOracle

            if len(idx) == 1 and LnLOracle(problem, th_ref[idx]).conditioning(0, [frozenset()]) > 1e14:
                part.known_finding("K6", dict(case0, rows=idx), f"rejection_sample raised {type(e).__name__} on a numerically singular row (kernel returns a non-finite likelihood)")
                part.evals += 1
                todo = todo[1:]
                first = False
                continue
            part.violation(dict(case0, rows=idx[:3]), f"rejection_sample raised on a valid input: {type(e).__name__}: {str(e)[:200]}")
            return
        P = np.atleast_1d(res["P"].to_value(u.day))
        got_rows = []
        for k in range(0, len(P), nl):
            j = np.where(theta[:, 0] == P[k])[0]
            if len(j) != 1:
                part.violation(dict(case0), "a returned row's period is not the period of any library row (nonlinear parameters altered)", observed=float(P[k]))
                return
            got_rows.append(int(j[0]))
        if len(recs) != len(got_rows) or len(P) != nl * len(got_rows):
            part.violation(case0, "number of multivariate_normal calls != number of accepted nonlinear samples (one call of size n_linear per sample expected)",
                           expected=len(got_rows), observed=len(recs))
            return
        # draws of different rows / batches must come from different deviates: equal Mahalanobis radii (x-a)^T A^-1 (x-a)
        # of two draws mean both were generated from the same standard-normal numbers (a re-used random stream)
        radii = []
        for rec in recs:
            _, mean, cov, size, draws = rec
            if np.all(np.isfinite(cov)) and np.all(np.isfinite(mean)):
                try:
                    Ci = np.linalg.inv(cov)
                    for d in np.atleast_2d(draws):
                        radii.append(float((d - mean) @ Ci @ (d - mean)))
                except np.linalg.LinAlgError:
                    pass
        rr = np.sort(np.array(radii))
        if len(rr) > 1 and np.any(np.diff(rr) <= 1e-9 * np.maximum(rr[1:], 1e-300)):
            part.violation(dict(case0), "two linear-parameter draws have identical Mahalanobis radii: they were generated from the same random "
                           "deviates (batches / rows sharing one random stream), not independently", observed=rr[:8].tolist())
            return
        for k, (i, rec) in enumerate(zip(got_rows, recs)):
            case = dict(case0, theta=theta[i].tolist())
            part.evals += 1
            _, mean, cov, size, draws = rec
            if size != nl:
                part.violation(case, "multivariate_normal not called with size = n_linear_samples", expected=nl, observed=size)
                return
            v = orc.classify_row(i, mean, cov)
            if v[0] == "pass":
                part.add("rows_exact_pass")
                if i % 5 == 0:
                    part.nontrivial.add(core.okey((cfg, sh, nl, path, theta[i].tolist())))
            elif v[0] == "untrusted":
                part.add("untrusted")
            elif v[0] == "known":
                for fid in v[1]:
                    part.known_finding(fid, case, "posterior (a, A) equals the finding's twin")
            else:
                part.violation(case, v[1], expected=v[2], observed=v[3])
                return
            part.outcomes.add(core.okey((round(float(mean[0]), 6), cfg["poly_trend"], cfg["n_offsets"], nl)))
            # draws are emitted unmodified, in design-matrix order and internal units, next to an unchanged copy of the row
            block = slice(k * nl, (k + 1) * nl)
            for c, name in enumerate(names):
                col = res[name]
                want_unit = dunit if not name.startswith("v") or name == "v0" else dunit / u.day ** int(name[1:])
                if col.unit != want_unit:
                    part.violation(case, f"column {name} has unit {col.unit}, expected {want_unit}")
                    return
                if not np.array_equal(np.asarray(col.value[block]), np.atleast_2d(draws)[:, c], equal_nan=True):
                    part.violation(case, f"column {name} of the returned rows is not the generator's draw for that slot (order / unit / copy error)",
                                   expected=np.atleast_2d(draws)[:, c], observed=col.value[block])
                    return
            for c, (name, un) in enumerate(zip(["P", "e", "omega", "M0", "s"], [u.day, u.one, u.rad, u.rad, dunit])):
                got = np.asarray(res[name].to_value(un))[block]
                want = th_ref[i, c]
                if not np.allclose(got, want, rtol=2e-16 if c < 4 else 1e-14, atol=0):
                    part.violation(case, f"nonlinear parameter {name} of a returned row differs from the library row", expected=want, observed=got)
                    return
        done = set(got_rows)
        if first:
            todo = [i for i in todo if i not in done]
            first = False
        else:
            if idx[0] not in done:
                part.add("rows_never_accepted")
            todo = todo[1:]
    if len(part.samples) < 2:
        part.samples.append(core.jsonable(dict(case0, rows=len(theta))))


def shard(items, quick=True, seed=0):
    import thejoker as tj

    part = core.Part()
    part.extra["_quick"] = quick
    scratch = seams.fresh_dir("c03")
    for cfg, shapes in items:
        try:
            prior, dec = pb.make_prior(cache=False, **c01.prior_kwargs(cfg))
        except Exception as e:
            part.violation(dict(kind="config", cfg=cfg), f"building a valid prior raised {type(e).__name__}: {e}")
            continue
        for si, sh in enumerate(shapes):
            if sh["n"] < cfg["n_offsets"] + 1:
                continue
            for nl in (1, 2, 3):
                for path in ("inmem", "obj"):
                    if path == "obj" and (nl != 2 or (quick and si % 3)):
                        continue
                    if quick and nl == 3 and si % 2:
                        continue
                    check_cell(cfg, sh, nl, path, seed, part, prior, dec, lambda rng: tj.TheJoker(prior, rng=rng, tempfile_path=scratch))
    part.extra.pop("_quick", None)
    return part


def run_case(case, part):
    import thejoker as tj

    cfg, sh = case["cfg"], case["shape"]
    prior, dec = pb.make_prior(cache=False, **c01.prior_kwargs(cfg))
    part.extra["_quick"] = True
    check_cell(cfg, sh, case["n_linear"], case["path"], case.get("seed", 0), part, prior, dec,
               lambda rng: tj.TheJoker(prior, rng=rng, tempfile_path=seams.fresh_dir("c03r")))
    part.extra.pop("_quick", None)


def main():
    chk = core.Check(
        PID, "exploration",
        "C01's prior configurations (quick: the 24-configuration covering subset; thorough: all 216) x data shapes (weakly and strongly "
        "informative) x theta rows (cap active / inactive, s = 0 / > 0) x n_linear_samples in {1,2,3} x path {in memory: recording "
        "generator handed to TheJoker; file path: numpy.random.Generator replaced by a recording subclass while thejoker builds its child "
        "generators}: every row is forced through the rejection step (scripted uniforms = 0) and the (mean, cov, size) handed to "
        "multivariate_normal are compared with the reference (a, A); the returned linear columns must be those draws bitwise, in "
        "design-matrix order and units, next to an unchanged copy of the nonlinear parameters. Non-trivial: rows passing the exact band "
        "(every 5th hashed).",
    )
    cfgs = c01.configs(chk.quick)
    shapes = c01.data_shapes(True)  # 12 shapes incl. tiny (strongly informative) and large (weakly informative) errors
    if chk.quick:
        shapes = shapes[::2]
    items = [(c, shapes) for c in cfgs]
    chk.bounds = {"configurations": len(cfgs), "data_shapes": len(shapes)}
    chk.merge(core.parallel(shard, core.interleave(items, core.NPROC * 2), quick=chk.quick, seed=chk.seed))
    chk.assumptions += [
        "numpy's multivariate_normal is trusted to draw from N(mean, cov): 'n independent draws from N(a, A)' is decided by what is handed to it "
        "and by the unmodified pass-through of what it returns",
        "reference (a, A) from the declared prior with the capped K variance and jitter-inflated covariance; twins K1-K4 attribute the open kernel findings",
    ]
    return chk.finish(run_case)


def replay(doc):
    part = core.Part()
    run_case(doc["case"], part)
    for v in part.violations:
        print("REPRODUCED:", v["msg"], "\n expected:", v.get("expected"), "\n observed:", v.get("observed"))
    print("violations:", len(part.violations))
    return 1 if part.violations else 0
