"""C17 — sample-table operations preserve the physical orbit and its metadata (E1 + chains)."""
import itertools
import os

import numpy as np

from .. import core, seams
from ..ref import kepler
from ..ref import tables as T

PID = "C17"
TREF = 57250.25
KS = [-3.0, -0.5, 0.0, 2.0]
OMS = [0.0, 1.0, np.pi, 5.0, -1.0, 7.0]
TGRID = TREF + np.array([-3.0, 0.0, 0.4, 2.9, 11.3, 47.1])


def make_model(case):
    n = len(case["K"])
    au = case["aunit"]
    f = (180.0 / np.pi) if au == "deg" else 1.0
    om = np.array([OMS[(case["om0"] + 2 * i) % len(OMS)] for i in range(n)]) * f
    M0 = np.array([0.3 + 1.9 * i for i in range(n)]) * f
    Pd = np.array(([2.5, 17.0, 1.25, 300.0] + [5.5 + 3.25 * k for k in range(8)])[:n]) + case.get("jit", 0.0)
    if case.get("ptie"):
        # tied periods: each value occurs twice (as in the output of n_linear_samples=2, or two concatenated runs)
        Pd = np.repeat(Pd[: (n + 1) // 2], 2)[:n][np.array(case["ptie"]) if isinstance(case["ptie"], list) else np.arange(n)]
    P = Pd / 365.25 if case["punit"] == "yr" else Pd
    e = np.array(([0.0, 0.4] * 6)[:n])
    kf = 1000.0 if case["kunit"] == "m / s" else 1.0
    K = np.array(case["K"], dtype=float) * kf
    cols = {"P": (P, case["punit"]), "e": (e, ""), "omega": (om, au), "M0": (M0, au), "s": (np.zeros(n) + 0.5 * kf, case["kunit"]),
            "K": (K, case["kunit"]), "v0": ((np.arange(n) * 1.5 - 1.0) * kf, case["kunit"])}
    pt, no = case["poly_trend"], case["n_offsets"]
    for k in range(1, no + 1):
        cols[f"dv0_{k}"] = ((np.arange(n) + 0.25 * k) * kf, case["kunit"])
    for i in range(1, pt):
        cols[f"v{i}"] = ((0.01 * (np.arange(n) + 1) * (-1) ** i) * kf, case["kunit"] + f" / d{i if i > 1 else ''}".replace("d2", "d2"))
    if case.get("colorder") == "rot":
        # columns inserted in another order than the canonical P, e, omega, M0, s, K, ... (prior.sample() does this too)
        keys = list(cols)
        keys = keys[1:5] + keys[:1] + keys[5:][::-1]
        cols = {k: cols[k] for k in keys}
    return T.TModel(cols, TREF if case["t_ref"] else None, pt, no)


def _fix_units(m):
    # normalise unit strings through astropy so that they compare equal to what the table reports
    import astropy.units as u

    m.cols = {k: (v, T._ustr(u.Unit(un)) if un else "") for k, (v, un) in m.cols.items()}
    return m


def ref_curve(m, i, tgrid):
    """Reference RV curve of row i in km/s (Kepler term + polynomial trend, relative to t_ref)."""
    import astropy.units as u

    def val(name, unit):
        v, un = m.cols[name]
        return (v[i] * (u.Unit(un) if un else u.one)).to_value(unit)

    P = val("P", u.day)
    z = kepler.zfunc(tgrid, P, val("e", u.one), val("omega", u.rad), val("M0", u.rad), m.t_ref)
    rv = val("K", u.km / u.s) * z
    for j in range(m.poly_trend):
        rv = rv + val(f"v{j}", u.km / u.s / u.day**j) * (tgrid - m.t_ref) ** j
    return rv


def impl_curve(s, i, tgrid):
    import astropy.units as u
    from astropy.time import Time

    orb = s.get_orbit(i)
    return orb.radial_velocity(Time(tgrid, format="mjd", scale="tcb")).to_value(u.km / u.s)


def check_table(case, part):
    import astropy.units as u
    from astropy.time import Time
    import thejoker as tj

    m = _fix_units(make_model(case))
    n = len(m)
    try:
        s = T.to_impl(m, numeric_t_ref=bool(case.get("numeric_t_ref")))
        if case.get("p_f32"):
            # mixed precision: the period column is stored in single precision (values exactly representable), the others in double
            s["P"] = u.Quantity(np.asarray(s["P"].value, dtype=np.float32), s["P"].unit, dtype=np.float32)
            assert s["P"].dtype == np.float32 and np.array_equal(np.asarray(s["P"].value, dtype=float), m.cols["P"][0])
    except Exception as e:
        part.violation(case, f"building the table raised {type(e).__name__}: {e}")
        return
    d = T.diff(T.from_impl(s), m)
    if d:
        part.violation(case, "construction does not preserve the table: " + d)
        return
    anyneg = any(k < 0 for k in case["K"])
    part.record(case, outcome=(tuple(np.sign(case["K"])), case["aunit"], case["om0"]), nontrivial=anyneg)

    # ---- wrap_K ---------------------------------------------------------------------------
    if m.t_ref is not None:
        before = [impl_curve(s, i, TGRID) for i in range(n)]
        refb = [ref_curve(m, i, TGRID) for i in range(n)]
        for i in range(n):
            if not np.allclose(before[i], refb[i], rtol=1e-9, atol=1e-9):
                part.violation(dict(case, row=i), "get_orbit(i).radial_velocity != reference curve of the row", expected=refb[i], observed=before[i])
                return
    w = T.to_impl(m)
    try:
        w2 = w.wrap_K()
    except Exception as e:
        part.violation(case, f"wrap_K raised {type(e).__name__}: {e}")
        return
    wm = m.wrap_K()
    d = T.diff(T.from_impl(w2), wm, rtol=1e-13, atol=1e-13)
    if d:
        part.violation(case, "wrap_K: " + d)
        return
    got = T.from_impl(w2)
    K0, om0 = m.cols["K"][0], m.cols["omega"][0]
    if np.any(got.cols["K"][0] < 0):
        part.violation(case, "wrap_K left a negative K", observed=got.cols["K"][0])
        return
    keep = K0 >= 0
    if not np.array_equal(got.cols["omega"][0][keep], om0[keep]):
        part.violation(case, "wrap_K changed omega of a row whose K was not negative", expected=om0, observed=got.cols["omega"][0])
        return
    if m.t_ref is not None:
        for i in range(n):
            after = impl_curve(w2, i, TGRID)
            if not np.allclose(after, refb[i], rtol=1e-9, atol=1e-9):
                part.violation(dict(case, row=i), "wrap_K changed the RV curve of a row", expected=refb[i], observed=after)
                return

    # ---- get_t0 / get_time_with_phase -----------------------------------------------------
    for phase in (0.0, 1.3, -2.0, 7.0):
        for pu in ("rad", "deg"):
            ph = phase * u.rad if pu == "rad" else np.degrees(phase) * u.deg
            try:
                if m.t_ref is not None:
                    tt = s.get_time_with_phase(ph)
                    t0 = s.get_t0()
                else:
                    tt = s.get_time_with_phase(ph, t_ref=Time(TREF, format="mjd", scale="tcb"))
                    t0 = s.get_t0(t_ref=Time(TREF, format="mjd", scale="tcb"))
            except Exception as e:
                part.violation(dict(case, phase=phase), f"get_time_with_phase raised {type(e).__name__}: {e}")
                return
            for which, tv, want in (("get_time_with_phase", tt, phase), ("get_t0", t0, 0.0)):
                tv = np.atleast_1d(tv.tcb.mjd)
                Pd = (s["P"]).to_value(u.day)
                M0r = (s["M0"]).to_value(u.rad)
                Man = 2 * np.pi * (tv - TREF) / Pd - M0r
                err = np.abs(np.angle(np.exp(1j * (Man - want))))
                # tolerance: time resolution of the returned Time (~1e-9 d) in phase units
                tol = 1e-6 + 2 * np.pi * 2e-9 / Pd
                if np.any(err > tol):
                    part.violation(dict(case, phase=phase, punit=pu), f"{which}: mean anomaly at the returned time != requested phase",
                                   expected=want, observed=Man.tolist())
                    return
    # both / neither reference epoch must be refused
    try:
        if m.t_ref is not None:
            s.get_time_with_phase(0 * u.rad, t_ref=Time(TREF + 1, format="mjd", scale="tcb"))
        else:
            s.get_time_with_phase(0 * u.rad)
        part.violation(case, "get_time_with_phase accepted a conflicting / missing reference epoch")
        return
    except ValueError:
        pass

    # ---- pack / unpack --------------------------------------------------------------------
    own = {k: (u.Unit(un) if un else u.one) for k, (v, un) in m.cols.items()}
    packed, units = s.pack(units=dict(own), nonlinear_only=False)
    tr = None if m.t_ref is None else Time(m.t_ref, format="mjd", scale="tcb")
    back = tj.JokerSamples.unpack(packed, units, t_ref=tr, poly_trend=m.poly_trend, n_offsets=m.n_offsets)
    d = T.diff(T.from_impl(back), m)
    if d:
        part.violation(case, "pack(units=own, nonlinear_only=False) -> unpack: " + d)
        return
    # explicit column order
    rev = list(m.cols)[::-1]
    packed, units = s.pack(units=dict(own), names=rev)
    back = tj.JokerSamples.unpack(packed, units, t_ref=tr, poly_trend=m.poly_trend, n_offsets=m.n_offsets)
    d = T.diff(T.from_impl(back), m.select(rev))
    if d:
        part.violation(case, "pack(names=reversed) -> unpack: " + d)
        return
    # default units of pack() are the sampler's internal ones (day, rad), whatever was packed before in this process
    fresh = T.to_impl(m)
    _, dunits = fresh.pack()
    if dunits["P"] != u.day or dunits["omega"] != u.rad or dunits["M0"] != u.rad or dunits["e"] != u.one:
        part.violation(case, "default pack() does not use the internal units (day, rad) after an earlier pack(units=...) call in this process",
                       expected="P: d, omega/M0: rad", observed={k: str(v) for k, v in dunits.items()})
        return
    packed, units = s.pack()
    if list(units.keys()) != ["P", "e", "omega", "M0", "s"]:
        part.violation(case, "default pack order is not P,e,omega,M0,s", observed=list(units.keys()))
        return
    back = tj.JokerSamples.unpack(packed, units, t_ref=tr, poly_trend=m.poly_trend, n_offsets=m.n_offsets)
    for nm in ["P", "e", "omega", "M0", "s"]:
        a = back[nm]
        b = s[nm]
        if not np.allclose(a.to_value(b.unit), b.value, rtol=1e-13, atol=1e-13):
            part.violation(case, f"default pack -> unpack changed the physical value of {nm}", expected=b.value, observed=a.to_value(b.unit))
            return

    # ---- indexing / copy / reductions -----------------------------------------------------
    exprs = []
    for i in range(-n, n):
        exprs.append(("int", i))
    for a in range(n):
        for b in range(a + 1, n + 1):
            exprs.append(("slice", a, b, 1))
    if n > 1:
        exprs.append(("slice", 0, n, 2))
        exprs.append(("slice", n - 1, None, -1))
    for mask in itertools.product([False, True], repeat=n):
        if any(mask):
            exprs.append(("mask",) + mask)
    for k, mask in enumerate(itertools.product([False, True], repeat=n)):
        # the same masks as a plain Python list of booleans (`mask.tolist()`, a comprehension) and as an integer index ARRAY
        if any(mask) and k % 2 == 1:
            exprs.append(("masklist",) + mask)
    for r in (1, 2):
        for p in itertools.permutations(range(n), min(r, n)):
            exprs.append(("list",) + p)
            exprs.append(("intarray",) + p)
    # selections that pick NO row: the (empty) table keeps its columns, units and metadata
    exprs.append(("mask",) + (False,) * n)
    exprs.append(("slice", n, n, 1))
    exprs.append(("slice", 0, 0, 1))
    exprs.append(("intarray",))
    exprs.append(("names", "P", "K"))
    exprs.append(("names", "omega", "e", "P"))
    for ex in exprs:
        c2 = dict(case, index=list(ex))
        try:
            if ex[0] == "int":
                sub, mm = s[ex[1]], m.rows([ex[1]])
            elif ex[0] == "slice":
                sl = slice(ex[1], ex[2], ex[3])
                sub, mm = s[sl], m.rows(sl)
            elif ex[0] == "mask":
                mk = np.array(ex[1:], dtype=bool)
                sub, mm = s[mk], m.rows(mk)
            elif ex[0] == "masklist":
                mk = [bool(x) for x in ex[1:]]
                sub, mm = s[mk], m.rows(np.array(mk, dtype=bool))
            elif ex[0] == "intarray":
                ia = np.array(ex[1:], dtype=[np.int64, np.int32, np.uint8, np.intp][len(ex) % 4])
                sub, mm = s[ia], m.rows(np.array(ex[1:], dtype=int))
                if len(ex) == 1:
                    # ... and so does a copy of the empty selection
                    sub = sub.copy()
            elif ex[0] == "list":
                sub, mm = s[list(ex[1:])], m.rows(list(ex[1:]))
            else:
                sub, mm = s[list(ex[1:])], m.select(list(ex[1:]))
        except Exception as e:
            part.violation(c2, f"indexing raised {type(e).__name__}: {e}")
            return
        d = T.diff(T.from_impl(sub), mm)
        part.add("index_exprs")
        if d:
            part.violation(c2, "indexing: " + d)
            return
    cp = s.copy()
    d = T.diff(T.from_impl(cp), m)
    if d:
        part.violation(case, "copy(): " + d)
        return
    cp["K"] = cp["K"] * 0 + 1 * cp["K"].unit
    if T.diff(T.from_impl(s), m):
        part.violation(case, "copy() shares data with the original")
        return
    for name, fn in (("mean", np.mean), ("std", np.std)):
        try:
            r = getattr(s, name)()
        except Exception as e:
            part.violation(case, f"{name}() raised {type(e).__name__}: {e}")
            return
        mm = m.copy()
        mm.cols = {k: (np.atleast_1d(fn(v)), un) for k, (v, un) in m.cols.items()}
        # (statistics of a single-precision column are computed in single precision)
        tol = 1e-6 if case.get("p_f32") else 1e-12
        d = T.diff(T.from_impl(r), mm, rtol=tol, atol=tol)
        if d:
            part.violation(case, f"{name}(): " + d)
            return
    try:
        mp = s.median_period()
    except Exception as e:
        part.violation(case, f"median_period() raised {type(e).__name__}: {e}")
        return
    Pv = m.cols["P"][0]
    want_P = np.sort(Pv)[n // 2]
    # (with tied periods any ONE of the rows carrying the median value is acceptable)
    cands = [int(j) for j in np.where(Pv == want_P)[0]]
    ds = [T.diff(T.from_impl(mp), m.rows([j])) for j in cands]
    if all(ds):
        part.violation(case, "median_period() is not one member row whose P is the len//2-th order statistic: " + ds[0])
        return


# ---- chains -------------------------------------------------------------------------------
CHAIN_OPS = ["copy", "wrap_K", "idx_rev", "idx_first2", "idx_mask_alt", "packunpack", "hdf5", "q_t0", "q_orbit", "set_M0", "set_P"]


def apply_op(op, s, m, scratch):
    import astropy.units as u
    from astropy.time import Time
    import thejoker as tj

    n = len(m)
    import astropy.units as u  # noqa: F811

    if op == "copy":
        return s.copy(), m.copy()
    if op == "wrap_K":
        return s.wrap_K(), m.wrap_K()
    if op == "idx_rev":
        return s[list(range(n))[::-1]], m.rows(list(range(n))[::-1])
    if op == "idx_first2":
        return s[0:2], m.rows(slice(0, 2))
    if op == "idx_mask_alt":
        mk = np.array([i % 2 == 0 for i in range(n)])
        return s[mk], m.rows(mk)
    if op == "packunpack":
        own = {k: (u.Unit(un) if un else u.one) for k, (v, un) in m.cols.items()}
        packed, units = s.pack(units=dict(own), nonlinear_only=False)
        tr = None if m.t_ref is None else Time(m.t_ref, format="mjd", scale="tcb")
        return tj.JokerSamples.unpack(packed, units, t_ref=tr, poly_trend=m.poly_trend, n_offsets=m.n_offsets), m.copy()
    if op == "q_t0":  # pure queries: must not change the state, and must not poison later answers
        _queries(s, m)
        return s, m
    if op == "q_orbit":
        if m.t_ref is not None:
            for i in range(n):
                impl_curve(s, i, TGRID[:3])
        return s, m
    if op in ("set_M0", "set_P"):
        name = op[4:]
        v, un = m.cols[name]
        nv = v * 0.5 + (0.125 if name == "M0" else 1.0)
        s[name] = nv * (u.Unit(un) if un else u.one)
        m2 = m.copy()
        m2.cols[name] = (nv, un)
        # __setitem__ on an existing column keeps the column order
        return s, m2
    if op == "hdf5":
        path = os.path.join(scratch, "c17-%d.hdf5" % os.getpid())
        s.write(path, overwrite=True)
        r = tj.JokerSamples.read(path)
        os.unlink(path)
        return r, m.copy()
    raise KeyError(op)


def _queries(s, m):
    """answers of the read-only queries, as plain numbers"""
    import astropy.units as u
    from astropy.time import Time

    out = {}
    kw = {} if m.t_ref is not None else dict(t_ref=Time(TREF, format="mjd", scale="tcb"))
    out["t0"] = np.atleast_1d(s.get_t0(**kw).tcb.mjd).tolist()
    out["t_phase"] = np.atleast_1d(s.get_time_with_phase(1.3 * u.rad, **kw).tcb.mjd).tolist()
    if m.t_ref is None:
        kw2 = dict(t_ref=Time(TREF + 3.5, format="mjd", scale="tcb"))
        out["t0_other_ref"] = np.atleast_1d(s.get_t0(**kw2).tcb.mjd).tolist()
    out["packed"] = s.pack()[0].tolist()
    out["median_P"] = np.atleast_1d(s.median_period()["P"].value).tolist()
    if m.t_ref is not None and "K" in m.cols:
        out["curve0"] = impl_curve(s, 0, TGRID[:3]).tolist()
    return out


def check_chain(case, part):
    m = _fix_units(make_model(case))
    scratch = seams.fresh_dir("c17")
    s = T.to_impl(m)
    hist = []
    for op in case["chain"]:
        hist.append(op)
        try:
            s, m = apply_op(op, s, m, scratch)
        except Exception as e:
            part.violation(dict(case, chain=hist), f"{op} raised {type(e).__name__}: {e}")
            return
        part.transitions += 1
        d = T.diff(T.from_impl(s), m, rtol=1e-13, atol=1e-13)
        if d:
            part.violation(dict(case, chain=list(hist)), f"after {hist}: " + d)
            return
        # differential: the state reached through the chain equals the state built directly
        direct = T.to_impl(m)
        d = T.diff(T.from_impl(s), T.from_impl(direct), rtol=1e-13, atol=1e-13)
        if d:
            part.violation(dict(case, chain=list(hist)), f"state after {hist} differs from the same table built directly: " + d)
            return
        # differential oracle on the read-only queries: same answers as a freshly built object in the same state
        try:
            qa, qb = _queries(s, m), _queries(direct, m)
        except Exception as e:
            part.violation(dict(case, chain=list(hist)), f"query after {hist} raised {type(e).__name__}: {e}")
            return
        for k in qa:
            if not np.allclose(np.array(qa[k], dtype=float), np.array(qb[k], dtype=float), rtol=1e-12, atol=1e-9):
                part.violation(dict(case, chain=list(hist)), f"after {hist}: query {k} answers differently than on a freshly built table in the same state",
                               expected=qb[k], observed=qa[k])
                return
    part.record(case, outcome=m.key(), nontrivial=len(set(case["chain"])) > 1)


def run_case(case, part):
    if case["kind"] == "table":
        check_table(case, part)
    else:
        check_chain(case, part)


def shard(cases):
    part = core.Part()
    for c in cases:
        core.guard(run_case, c, part)
    return part


def build_cases(quick, seed):
    jit = round(core.seeded_jitter(seed, "c17"), 3) * 0.01
    cases = []
    nmax = 3 if quick else 4
    metas = [(tr, pt, no) for tr in (True, False) for (pt, no) in ((1, 0), (2, 1), (3, 2))]
    for n in range(1, nmax + 1):
        for Ks in itertools.product(KS, repeat=n):
            for om0 in (range(0, 6, 2) if quick else range(6)):
                for aunit in ("rad", "deg"):
                    for kunit in (("km / s",) if (quick and n == 3) else ("km / s", "m / s")):
                        for punit in (("d",) if n >= 3 else ("d", "yr")):
                            for (tr, pt, no) in (metas if n <= 2 else metas[:1] + metas[4:5]):
                                cases.append(dict(kind="table", K=list(Ks), om0=om0, aunit=aunit, kunit=kunit, punit=punit,
                                                  t_ref=tr, poly_trend=pt, n_offsets=no, jit=jit,
                                                  colorder="rot" if (om0 + len(Ks) + (aunit == "deg")) % 2 else "canon",
                                                  numeric_t_ref=bool(tr and (om0 + len(Ks)) % 3 == 0)))
    # table sizes equal to / around the number of packed columns (5 nonlinear, 7.. all): pack -> unpack must not confuse axes
    for n in (5, 6, 7, 8, 9, 10):
        for (tr, pt, no) in ((True, 1, 0), (True, 2, 1), (False, 3, 2)):
            Ks = [KS[i % 4] for i in range(n)]
            cases.append(dict(kind="table", K=Ks, om0=n % 6, aunit="rad" if n % 2 else "deg", kunit="km / s", punit="d", t_ref=tr, poly_trend=pt,
                              n_offsets=no, jit=jit, colorder="canon" if n % 2 else "rot"))
    # mixed-precision tables (period column float32, everything else float64)
    for n in (2, 3, 4):
        for (tr, pt, no) in ((True, 1, 0), (True, 2, 1)):
            cases.append(dict(kind="table", K=[KS[i % 4] for i in range(n)], om0=n % 6, aunit="deg" if n % 2 else "rad", kunit="km / s", punit="d", t_ref=tr,
                              poly_trend=pt, n_offsets=no, jit=0.0, colorder="canon", p_f32=True))
    # tables with tied periods (median_period must still be ONE member row; per-row operations must not merge equal-P rows)
    for n, perm in ((2, None), (3, None), (4, None), (4, [0, 2, 1, 3]), (5, [4, 0, 2, 1, 3]), (6, None)):
        for (tr, pt, no) in ((True, 1, 0), (True, 2, 1)):
            cases.append(dict(kind="table", K=[KS[i % 4] for i in range(n)], om0=n % 6, aunit="rad", kunit="km / s", punit="d" if n % 2 else "yr", t_ref=tr,
                              poly_trend=pt, n_offsets=no, jit=jit, colorder="canon", ptie=perm if perm is not None else True))
    chains = []
    depth = 3 if quick else 4
    base = [dict(K=[-3.0, 2.0, -0.5], om0=1, aunit="deg", kunit="m / s", punit="yr", t_ref=True, poly_trend=2, n_offsets=1, jit=jit),
            dict(K=[2.0, -0.5, 0.0, -3.0], om0=4, aunit="rad", kunit="km / s", punit="d", t_ref=False, poly_trend=3, n_offsets=2, jit=jit)]
    for b in (base[:1] if quick else base):
        for d in range(1, depth + 1):
            for ch in itertools.product(CHAIN_OPS, repeat=d):
                chains.append(dict(b, kind="chain", chain=list(ch)))
    return cases, chains


def main():
    chk = core.Check(
        PID, "exploration",
        "tables with N<=3 (quick) / 4 rows: every K sign pattern over {-3,-0.5,0,2}^N x omega alphabet {0,1,pi,5,-1,7} "
        "(rotated) x angle unit x K unit x P unit x metadata (t_ref None/Time, poly_trend 1..3, n_offsets 0..2): wrap_K, "
        "get_t0/get_time_with_phase (4 phases x 2 units), pack/unpack, every int/slice/mask/int-list/name-list index, copy, "
        "mean, std, median_period vs a reference table model and the reference Kepler curve; chains of depth<=3 (4) over "
        "{copy, wrap_K, 3 index ops, pack/unpack, HDF5 round trip, read-only queries, column replacement} with a differential oracle (every "
        "read-only query answers as on a freshly built table in the same state). Non-trivial: some K<0 (tables); chain mixes operations.",
    )
    cases, chains = build_cases(chk.quick, chk.seed)
    chk.bounds = {"tables": len(cases), "chains": len(chains), "chain_depth": 3 if chk.quick else 4}
    chk.merge(core.parallel(shard, core.interleave(cases, core.NPROC * 2)))
    chk.merge(core.parallel(shard, core.interleave(chains, core.NPROC * 2)))
    chk.assumptions += ["astropy units/Time; twobody's KeplerOrbit is the orbit object get_orbit returns (compared with the independent reference solver)"]
    return chk.finish(run_case)


def replay(doc):
    part = core.Part()
    run_case(doc["case"], part)
    for v in part.violations:
        print("REPRODUCED:", v["msg"], "\n expected:", v.get("expected"), "\n observed:", v.get("observed"))
    print("violations:", len(part.violations))
    return 1 if part.violations else 0
