"""C08 — multi-survey data keep every observation tied to its own survey offset (E1)."""
import itertools

import numpy as np

from .. import core
from ..ref import marginal

PID = "C08"
T0 = 58100.0


def surjections(n, s):
    for f in itertools.product(range(s), repeat=n):
        if len(set(f)) == s:
            yield f


def _sources(case):
    """Build the per-survey RVData objects.  Observation j (time slot j) has unique tags."""
    import astropy.units as u
    from astropy.time import Time
    from thejoker import RVData

    assign = case["assign"]  # slot -> survey
    n = len(assign)
    jit = case.get("jit", 0.0)
    # slot times: increasing; 'ties' makes slot pairs share the same epoch
    tt = [T0 + 1.7 * j + 0.31 * (j % 3) + jit for j in range(n)]
    for a, b in case.get("ties", []):
        tt[b] = tt[a]
    vv = [5.0 * (j + 1) * (-1) ** j + 0.125 * j for j in range(n)]
    ee = [0.5 + 0.25 * j for j in range(n)]
    S = max(assign) + 1
    srcs = []
    for k in range(S):
        sl = [j for j in range(n) if assign[j] == k]
        # give each source its epochs in a scrambled order too
        if case.get("scramble"):
            sl = sl[::-1]
        kws = {}
        if case.get("nosort"):
            # sources built with the public sort=False flag, rows out of time order (reversed, then rotated by one)
            sl = sl[::-1]
            sl = sl[1:] + sl[:1]
            kws["sort"] = False
        if case.get("mixed") and k % 2 == 1:
            # this survey is delivered in other (equivalent) units: velocities in m/s, errors in cm/s
            srcs.append(RVData(Time([tt[j] for j in sl], format="mjd", scale="tcb"), [vv[j] * 1000.0 for j in sl] * u.m / u.s,
                               [ee[j] * 1e5 for j in sl] * u.cm / u.s, **kws))
        else:
            srcs.append(RVData(Time([tt[j] for j in sl], format="mjd", scale="tcb"), [vv[j] for j in sl] * u.km / u.s,
                               [ee[j] for j in sl] * u.km / u.s, **kws))
    return srcs, tt, vv, ee


def _container(case, srcs):
    order = case["order"]  # order in which surveys are listed / inserted
    if case["form"] == "list":
        return [srcs[k] for k in order], {k: pos for pos, k in enumerate(order)}
    if case["form"] == "tuple":
        return tuple(srcs[k] for k in order), {k: pos for pos, k in enumerate(order)}
    # dict_pre: names of different lengths that extend one another (as real survey names do)
    # dict_neg: integer survey codes with one negative code and the largest equal to S-1 (codes usable as - wrapping - column indices)
    keys = {"dict_int": lambda k: 10 + k, "dict_neg": lambda k: -1 if k == 0 else k, "dict_str": lambda k: "sv%02d" % k,
            "dict_pre": lambda k: ["lamost", "la", "lamost_dr5", "lam"][k % 4] + ("" if k < 4 else str(k))}[case["form"]]
    d = {}
    for k in order:
        d[keys(k)] = srcs[k]
    return d, None


_PRIORS = {}


def _prior(n_offsets):
    if n_offsets not in _PRIORS:
        import astropy.units as u
        import pymc as pm
        import thejoker as tj
        import thejoker.units as xu

        with pm.Model():
            offs = [xu.with_unit(pm.Normal(f"dv0_{k}", 0.0, 3.0 + 2 * k), u.km / u.s) for k in range(1, n_offsets + 1)]
            _PRIORS[n_offsets] = tj.JokerPrior.default(
                P_min=1 * u.day, P_max=100 * u.day, sigma_K0=30 * u.km / u.s, sigma_v=60 * u.km / u.s, v0_offsets=offs
            )
    return _PRIORS[n_offsets]


THETA = np.array([[3.3, 0.1, 1.3, 2.1, 0.0], [11.7, 0.6, 3.9, 5.5, 0.0], [57.0, 0.3, 0.4, 0.7, 0.0]])


def run_case(case, part):
    if case.get("kind") == "plot":
        return check_plot(case, part)
    import astropy.units as u
    import thejoker as tj
    from thejoker.data_helpers import validate_prepare_data

    srcs, tt, vv, ee = _sources(case)
    S = len(srcs)
    data, listpos = _container(case, srcs)
    try:
        all_data, ids, trend_M = validate_prepare_data(data, 1, S - 1)
    except Exception as e:
        part.violation(case, f"validate_prepare_data raised {type(e).__name__}: {e}")
        return
    n = len(tt)
    t = np.array(all_data.t.tcb.mjd)
    v = np.array(all_data.rv.to_value(u.km / u.s))
    e = np.array(all_data.rv_err.to_value(u.km / u.s))
    trend_M = np.array(trend_M)
    interleaved = any(case["assign"][j] > case["assign"][j + 1] for j in range(n - 1)) or case["order"] != sorted(case["order"])
    part.record(case, outcome=(tuple(np.round(trend_M.ravel(), 3)),), nontrivial=bool(interleaved and S > 1))
    # 1. merged = union of inputs
    got = sorted(zip(np.round(t, 9).tolist(), np.round(v, 9).tolist(), np.round(e, 9).tolist()))
    want = sorted(zip(np.round(tt, 9).tolist(), np.round(vv, 9).tolist(), np.round(ee, 9).tolist()))
    if got != want:
        part.violation(case, "merged data set is not the union of the input observations", expected=want, observed=got)
        return
    if len(ids) != n or trend_M.shape != (n, S):
        part.violation(case, "ids / design matrix have the wrong shape", observed=(len(ids), trend_M.shape))
        return
    # 2. each merged row -> owning survey (by its unique velocity tag)
    owner = [case["assign"][int(np.argmin(np.abs(np.array(vv) - x)))] for x in v.tolist()]
    # 3. offset columns: indicator of exactly one survey each; exactly one survey is offset-free
    if not np.array_equal(trend_M[:, 0], np.ones(n)):
        part.violation(case, "constant column of the design matrix is not all ones", observed=trend_M[:, 0])
        return
    col_of = {}
    for k in range(S):
        rows = [i for i in range(n) if owner[i] == k]
        pats = {tuple(trend_M[i, 1:]) for i in rows}
        if len(pats) != 1:
            part.violation(case, f"epochs of survey {k} do not all share the same offset parameter",
                           expected="one offset pattern per survey", observed=dict(owner=owner, trend_M=trend_M[:, 1:]))
            return
        pat = pats.pop()
        if sum(pat) not in (0.0, 1.0) or any(x not in (0.0, 1.0) for x in pat):
            part.violation(case, f"survey {k} has offset pattern {pat}", observed=trend_M[:, 1:])
            return
        col_of[k] = pat.index(1.0) + 1 if sum(pat) == 1.0 else 0
    if sorted(col_of.values()) != list(range(S)):
        part.violation(case, "surveys do not map one-to-one onto {reference, dv0_1, .., dv0_n}", observed=col_of)
        return
    if listpos is not None:
        # list input: first source is the reference, k-th further source gets dv0_k
        if any(col_of[k] != listpos[k] for k in range(S)):
            part.violation(case, "list input: the k-th further source does not get dv0_k (first = reference)",
                           expected=listpos, observed=col_of)
            return
    # ids consistent with the owner of each row
    id_of = {}
    for i in range(n):
        id_of.setdefault(ids[i], set()).add(owner[i])
    if any(len(s) != 1 for s in id_of.values()) or len(id_of) != S:
        part.violation(case, "returned ids do not label each merged row with the survey it came from",
                       expected=owner, observed=[str(x) for x in ids])
        return
    # ... and the label IS the survey's own name: the dict key it was given under / its position in the list
    if isinstance(data, dict):
        key_of = {k: next(kk for kk, v in data.items() if v is srcs[k]) for k in range(S)}
    else:
        key_of = dict(listpos)
    wrong = [i for i in range(n) if str(ids[i]) != str(key_of[owner[i]])]
    if wrong:
        part.violation(case, "merged rows are labelled with another survey's name (dict key / list position) than the one they came from",
                       expected=[str(key_of[o]) for o in owner], observed=[str(x) for x in ids])
        return
    # 4. likelihood = that of the correctly labelled data
    if case.get("lnl", True):
        prior = _prior(S - 1)
        joker = tj.TheJoker(prior)
        s = tj.JokerSamples()
        for i, (nm, un) in enumerate(zip(["P", "e", "omega", "M0", "s"], [u.day, u.one, u.rad, u.rad, u.km / u.s])):
            s[nm] = THETA[:, i] * un
        try:
            ll = np.array(joker.marginal_ln_likelihood(data, s, in_memory=True))
        except Exception as ex:
            part.violation(case, f"marginal_ln_likelihood raised {type(ex).__name__}: {ex}")
            return
        labels = [col_of[case["assign"][j]] for j in range(n)]
        pr = dict(kind="default", sigma_K0=30.0, P0=365.25, max_K=500.0, mu=np.zeros(1 + S), sig=np.array([0, 60.0] + [3.0 + 2 * k for k in range(1, S)]))
        pb = marginal.Problem(tt, vv, ee, min(tt), labels, 1, S - 1, pr)
        ref = pb.lnL(THETA, dtype=np.longdouble).astype(float)
        if case.get("mixed") and case["order"][0] % 2 == 1:
            # the merged data take the unit of the first listed source (m/s here): the density picks up the Jacobian
            ref = ref - n * np.log(1000.0)
        if not np.all(np.abs(ll - ref) <= 1e-7 * (1 + np.abs(ref))):
            part.violation(case, "marginal_ln_likelihood of multi-survey data != likelihood of the correctly labelled data",
                           expected=ref, observed=ll)


def check_plot(case, part):
    """the plotting helpers must subtract each survey's OWN offset from that survey's epochs (list or dict input)"""
    import matplotlib

    matplotlib.use("Agg")
    import matplotlib.pyplot as plt
    import astropy.units as u
    import thejoker as tj
    from thejoker.data_helpers import validate_prepare_data
    from thejoker.plot import plot_phase_fold, plot_rv_curves

    srcs, tt, vv, ee = _sources(case)
    S = len(srcs)
    data, listpos = _container(case, srcs)
    n = len(tt)
    # which offset parameter belongs to which survey (the sampler's own convention, verified by the other cases)
    all_data, ids, trend_M = validate_prepare_data(data, case["poly_trend"], S - 1)
    v_m = np.array(all_data.rv.to_value(u.km / u.s))
    owner = [case["assign"][int(np.argmin(np.abs(np.array(vv) - x)))] for x in v_m.tolist()]
    col_of = {}
    for k in range(S):
        rows = [i for i in range(n) if owner[i] == k]
        pat = tuple(np.array(trend_M)[rows[0], 1:S])
        col_of[k] = pat.index(1.0) + 1 if sum(pat) == 1.0 else 0
    offs = {c: 7.0 * c + 1.5 for c in range(1, S)}  # dv0_c
    nrow = case["n_rows"]
    smp = tj.JokerSamples(t_ref=all_data.t_ref, poly_trend=case["poly_trend"], n_offsets=S - 1)
    smp["P"] = np.full(nrow, 11.3) * u.day
    smp["e"] = np.full(nrow, 0.2)
    smp["omega"] = np.full(nrow, 1.1) * u.rad
    smp["M0"] = np.full(nrow, 0.7) * u.rad
    smp["s"] = np.zeros(nrow) * u.km / u.s
    smp["K"] = np.full(nrow, 3.0) * u.km / u.s
    smp["v0"] = np.full(nrow, 1.0) * u.km / u.s
    spread = np.linspace(-0.5, 0.5, nrow) if nrow > 1 else np.zeros(1)
    for c in range(1, S):
        smp[f"dv0_{c}"] = (offs[c] + spread * c) * u.km / u.s
    if case["poly_trend"] == 2:
        smp["v1"] = np.full(nrow, 0.05) * u.km / u.s / u.day
    fig, ax = plt.subplots()
    try:
        if case["func"] == "phase_fold":
            plot_phase_fold(smp, data=data, ax=ax, remove_trend=case["remove_trend"], show_s_errorbar=False)
            y = None
            for cont in ax.containers:
                y = np.asarray(cont[0].get_ydata())
                break
            if y is None:
                y = np.asarray(ax.lines[0].get_ydata())
            trend = 0.05 * (np.array(tt) - float(all_data.t_ref.tcb.mjd)) + 1.0 if case["poly_trend"] == 2 else np.full(n, 1.0)
            want = np.array([vv[j] - (offs[col_of[case["assign"][j]]] if col_of[case["assign"][j]] else 0.0) - (trend[j] if case["remove_trend"] else 0.0) for j in range(n)])
        else:
            pu = {"km/s": u.km / u.s, "m/s": u.m / u.s}[case.get("rv_unit", "km/s")]
            plot_rv_curves(smp, data=data, ax=ax, apply_mean_v0_offset=True, **({"rv_unit": pu} if case.get("rv_unit") else {}))
            y = None
            for cont in ax.containers:
                y = np.asarray(cont[0].get_ydata())
            want = np.array([vv[j] - (offs[col_of[case["assign"][j]]] if col_of[case["assign"][j]] else 0.0) for j in range(n)]) * (1 * u.km / u.s).to_value(pu)
    except Exception as e:
        plt.close(fig)
        part.violation(case, f"{case['func']} raised {type(e).__name__}: {str(e)[:200]}")
        return
    plt.close(fig)
    part.record(case, outcome=(tuple(np.round(np.sort(want), 6)),), nontrivial=True)
    if y is None or len(y) != n or not np.allclose(np.sort(y), np.sort(want), rtol=1e-9, atol=1e-9):
        part.violation(case, f"{case['func']}: the plotted velocities are not each survey's velocities minus that survey's own offset",
                       expected=np.sort(want), observed=None if y is None else np.sort(y))


def shard(cases):
    part = core.Part()
    for c in cases:
        core.guard(run_case, c, part)
    return part


def build_cases(quick, seed):
    jit = round(core.seeded_jitter(seed, "c08") * 0.2, 3)
    cases = []
    nmax = 5 if quick else 7
    for S in (1, 2, 3):
        for n in range(S, nmax + 1):
            for f in surjections(n, S):
                orders = list(itertools.permutations(range(S)))
                for order in orders:
                    forms = ["list", "dict_int", "dict_str"] + (["dict_neg"] if S > 1 else []) + (["tuple"] if not quick else []) + (["dict_pre"] if n <= S + 1 else [])
                    for form in forms:
                        for scr in (False, True):
                            # likelihood part only on a sub-product (cost): list+dict_str, unscrambled
                            lnl = (not scr) and form in ("list", "dict_str", "dict_pre", "dict_neg") and (n <= 4 or not quick)
                            cases.append(dict(assign=list(f), order=list(order), form=form, scramble=scr, jit=jit, lnl=lnl))
                            if lnl and S > 1:
                                cases.append(dict(assign=list(f), order=list(order), form=form, scramble=scr, jit=jit, lnl=lnl, mixed=True))
                            if form in ("list", "dict_str") and not scr and n >= S + 1:
                                cases.append(dict(assign=list(f), order=list(order), form=form, scramble=False, jit=jit, lnl=lnl and n <= 4, nosort=True))
    # identical epochs in two surveys
    for S in (2, 3):
        for n in (S, S + 1, 4):
            if n < S:
                continue
            for f in surjections(n, S):
                for a, b in itertools.combinations(range(n), 2):
                    if f[a] != f[b]:
                        for form in ("list", "dict_str"):
                            for order in itertools.permutations(range(S)):
                                cases.append(dict(assign=list(f), order=list(order), form=form, scramble=False, jit=jit,
                                                  ties=[[a, b]], lnl=(form == "list" and n <= 3)))
    # plotting helpers (anchored in plot.py): interleaved surveys, list / dict input in sorted and unsorted key order
    for S in (2, 3):
        for assign in ([0, 1, 0, 1, 1, 0][: 4 + S - 2] if S == 2 else [0, 1, 2, 1, 0, 2], [S - 1 - k % S for k in range(6)]):
            for order in itertools.permutations(range(S)):
                for form in ("list", "dict_str", "dict_int"):
                    for func, opts in (("phase_fold", dict(remove_trend=True)), ("phase_fold", dict(remove_trend=False)), ("rv_curves", dict(remove_trend=True))):
                        for pt_ in (1, 2):
                            cases.append(dict(kind="plot", assign=list(assign), order=list(order), form=form, scramble=False, jit=jit, func=func,
                                              poly_trend=pt_, n_rows=1 if func == "phase_fold" else 5, lnl=False, **opts))
                            if func == "rv_curves" and form != "dict_int":
                                # plotted in another unit than the data's
                                cases.append(dict(kind="plot", assign=list(assign), order=list(order), form=form, scramble=False, jit=jit, func=func,
                                                  poly_trend=pt_, n_rows=5, lnl=False, rv_unit="m/s", **opts))
    # many surveys (offset names dv0_10, dv0_11 sort before dv0_2 as strings): 12 sources, every one a different prior width
    S = 12
    for rot in (0, 5):
        for extra in (0, 3):
            assign = [(j + rot) % S for j in range(S)] + [((7 * j) + 2) % S for j in range(extra)]
            for order in (list(range(S)), list(range(S))[::-1], [(5 * k + 3) % S for k in range(S)]):
                for form in ("list", "dict_str"):
                    cases.append(dict(assign=assign, order=order, form=form, scramble=False, jit=jit, lnl=True))
    return cases


def main():
    chk = core.Check(
        PID, "exploration",
        "surveys S<=3; every surjection of N<=5 (quick) / 7 time slots onto surveys (all interleavings); layouts with "
        "identical epochs in two surveys; 12 surveys with 12 distinct offset priors; list / tuple / dict(int keys) / dict(str keys) input in every survey order; "
        "sources internally scrambled; unique velocity/error tags identify each observation. Oracle on "
        "validate_prepare_data and (sub-product) marginal_ln_likelihood vs the reference marginal with correct labels. "
        "Non-trivial: more than one survey and the surveys are interleaved in time or listed out of order.",
    )
    cases = build_cases(chk.quick, chk.seed)
    chk.bounds = {"cases": len(cases), "with_likelihood": sum(1 for c in cases if c.get("lnl")), "plot_cases": sum(1 for c in cases if c.get("kind") == "plot")}
    chk.merge(core.parallel(shard, core.interleave(cases, core.NPROC * 2)))
    chk.assumptions += ["for dict input the property does not fix which survey is the reference; only the one-to-one partition structure is demanded",
                        "reference marginal likelihood (mc/ref/marginal.py, long double Cholesky)"]
    return chk.finish(run_case)


def replay(doc):
    part = core.Part()
    run_case(doc["case"], part)
    for v in part.violations:
        print("REPRODUCED:", v["msg"], "\n expected:", v.get("expected"), "\n observed:", v.get("observed"))
    print("violations:", len(part.violations))
    return 1 if part.violations else 0
