"""C18 — only priors and data that satisfy the sampler's assumptions are accepted (E1)."""
import itertools

import numpy as np

from .. import core

PID = "C18"

NONLINEAR = ["P", "e", "omega", "M0", "s"]
NON_NORMAL = ["Uniform", "HalfNormal", "StudentT", "Laplace", "TruncatedNormal", "LogNormal", "Cauchy", "Logistic",
              "Deterministic", "MvNormalComponent", "ScaledNormal", "ExpOfNormal", "AbsOfNormal", "SqrOfNormal", "float"]
VALID_LINEAR = ["Normal", "NormalMean", "NormalOtherUnit"]


def lin_names(pt, no):
    return ["K"] + [f"v{i}" for i in range(pt)], [f"dv0_{k}" for k in range(1, no + 1)]


def good_unit(name):
    import astropy.units as u

    if name == "P":
        return u.day
    if name in ("e",):
        return u.one
    if name in ("omega", "M0"):
        return u.rad
    if name in ("s", "K") or name.startswith("dv0"):
        return u.km / u.s
    i = int(name[1:])
    return u.km / u.s / u.day**i


def alt_unit(name):
    """an equivalent but different unit"""
    import astropy.units as u

    if name == "P":
        return u.yr
    if name == "e":
        return u.one
    if name in ("omega", "M0"):
        return u.deg
    if name in ("s", "K") or name.startswith("dv0"):
        return u.m / u.s
    i = int(name[1:])
    return u.m / u.s / u.yr**i


def bad_unit(name):
    import astropy.units as u

    if name == "P":
        return u.km / u.s
    if name == "e":
        return u.day
    if name in ("omega", "M0"):
        return u.km
    if name in ("s", "K") or name.startswith("dv0"):
        return u.day
    i = int(name[1:])
    return u.km / u.s / u.day ** (i + 1) if i > 0 else u.km / u.s / u.day


def make_var(name, kind):
    """Create a pymc variable called `name` of the requested kind inside the current model context."""
    import pymc as pm
    import pytensor.tensor as pt
    from pymc_ext.distributions import angle
    from thejoker.distributions import Kipping13Global, UniformLog

    if kind == "default":
        if name == "P":
            return UniformLog("P", 1.0, 100.0)
        if name == "e":
            return Kipping13Global("e")
        if name in ("omega", "M0"):
            return angle(name)
        if name == "s":
            return pm.Deterministic("s", pt.constant(0.0))
        return pm.Normal(name, 0.0, 10.0)
    if kind == "Normal":
        return pm.Normal(name, 0.0, 7.0)
    if kind in ("NormalMean", "NormalOtherUnit"):
        return pm.Normal(name, 1.5, 7.0)
    if kind == "Uniform":
        return pm.Uniform(name, -5, 5)
    if kind == "HalfNormal":
        return pm.HalfNormal(name, 5.0)
    if kind == "StudentT":
        return pm.StudentT(name, nu=3, mu=0, sigma=5)
    if kind == "Laplace":
        return pm.Laplace(name, 0, 5)
    if kind == "TruncatedNormal":
        return pm.TruncatedNormal(name, mu=0, sigma=5, lower=-3, upper=3)
    if kind == "LogNormal":
        return pm.LogNormal(name, 0, 1)
    if kind == "Cauchy":
        return pm.Cauchy(name, 0, 1)
    if kind == "Logistic":
        return pm.Logistic(name, 0, 1)
    if kind == "Deterministic":
        return pm.Deterministic(name, pt.constant(1.0))
    if kind == "MvNormalComponent":
        mv = pm.MvNormal(name + "_mv", mu=np.zeros(2), cov=np.eye(2))
        return pm.Deterministic(name, mv[0])
    if kind == "ScaledNormal":
        base = pm.Normal(name + "_raw", 0, 1)
        return pm.Deterministic(name, 3.0 * base)
    if kind in ("ExpOfNormal", "AbsOfNormal", "SqrOfNormal"):
        # a one-argument function of a Normal variable (log-normal / half-normal / scaled chi^2), wrapped as a named Deterministic
        base = pm.Normal(name + "_raw", 0, 1)
        return pm.Deterministic(name, {"ExpOfNormal": pt.exp, "AbsOfNormal": pt.abs, "SqrOfNormal": pt.sqr}[kind](base))
    if kind == "float":
        return 1.0
    raise KeyError(kind)


def build_prior(case):
    """Returns the JokerPrior or raises whatever the library raises."""
    import pymc as pm
    import thejoker as tj
    import thejoker.units as xu

    pt_, no = case["poly_trend"], case["n_offsets"]
    lin, offs = lin_names(pt_, no)
    muts = {m["name"]: m for m in case.get("mut", [])}
    pars = {}
    v0_offsets = []
    with pm.Model() as model:
        for name in NONLINEAR + lin + offs:
            m = muts.get(name)
            kind = "default"
            unit = good_unit(name)
            if m is not None:
                if m["what"] == "omit":
                    continue
                if m["what"] == "kind":
                    kind = m["kind"]
                    if kind == "NormalOtherUnit":
                        unit = alt_unit(name)
                if m["what"] == "badunit":
                    unit = bad_unit(name)
                if m["what"] == "badunit2":
                    unit = bad_unit2(name)
                if m["what"] == "altunit":
                    unit = alt_unit(name)
                if m["what"] == "badtag":
                    # a mis-typed unit tag: not a unit object at all
                    g = good_unit(name)
                    unit = {"str": g.to_string(), "quantity": 10 * g, "tuple": (g, g), "number": 1.0}[m["tag"]]
            var = make_var(name, kind)
            if not (m is not None and m["what"] == "nounit"):
                var = xu.with_unit(var, unit)
            if name in offs:
                v0_offsets.append(var)
            else:
                pars[name] = var
        if case.get("pars_as") == "list":
            pars_in = list(pars.values())
        elif case.get("pars_as") == "tuple":
            pars_in = tuple(pars.values())
        elif case.get("pars_as") == "model":
            pars_in = None  # documented: the parameters are then taken from the model's named variables
        elif case.get("pars_as") == "number":
            pars_in = 42
        elif case.get("pars_as") in ("empty_dict", "empty_list", "empty_tuple"):
            # an explicitly EMPTY collection names no parameter at all (the model holding suitable variables does not change that)
            pars_in = {"empty_dict": {}, "empty_list": [], "empty_tuple": ()}[case["pars_as"]]
        else:
            pars_in = pars
        if case.get("offsets_as") == "dup_first" and len(v0_offsets) >= 2:
            # two entries sharing one name: the second offset prior is missing
            v0_offsets = [v0_offsets[0]] * len(v0_offsets)
        if case.get("offsets_as") == "number":
            return tj.JokerPrior(pars=pars_in, poly_trend=pt_, v0_offsets=5, model=model)
        if case.get("model_as") == "string":
            return tj.JokerPrior(pars=pars_in, poly_trend=pt_, v0_offsets=v0_offsets, model="model")
        # the offsets are accepted as "an iterable of pymc variables": list, tuple, or a one-shot iterator / generator
        oa = case.get("offsets_as", "list")
        if oa == "tuple":
            v0_offsets = tuple(v0_offsets)
        elif oa == "iter":
            v0_offsets = iter(v0_offsets)
        elif oa == "gen":
            v0_offsets = (v for v in list(v0_offsets))
        return tj.JokerPrior(pars=pars_in, poly_trend=pt_, v0_offsets=v0_offsets, model=model)


def check_prior_alias(case, part):
    """the prior keeps its own copy of the offsets handed over as a list: changing that list afterwards changes nothing"""
    import pymc as pm
    import thejoker as tj
    import thejoker.units as xu
    import astropy.units as u

    pt_, no = case["poly_trend"], case["n_offsets"]
    lin, offs = lin_names(pt_, no)
    with pm.Model() as model:
        pars = {}
        lst = []
        for name in NONLINEAR + lin + offs:
            var = xu.with_unit(make_var(name, "default"), good_unit(name))
            (lst if name in offs else pars.__setitem__(name, var) or [])  # noqa
            if name in offs:
                lst.append(var)
        try:
            prior = tj.JokerPrior(pars=pars, poly_trend=pt_, v0_offsets=lst, model=model)
        except Exception as e:
            part.violation(case, f"a valid prior specification was refused: {type(e).__name__}: {e}")
            return
        names0, n0 = list(prior.par_names), prior.n_offsets
        # the caller goes on using the list (e.g. to build a second prior with one more survey)
        lst.append(xu.with_unit(pm.Uniform(f"dv0_{no + 1}", -5, 5), u.km / u.s))
        if case["then"] == "clear":
            del lst[:]
    part.record(case, outcome=(n0, prior.n_offsets), nontrivial=True)
    if prior.n_offsets != n0 or list(prior.par_names) != names0 or len(prior.v0_offsets) != n0:
        part.violation(case, "a JokerPrior changed after it was built because the caller modified the list of offsets it had passed in",
                       expected=(n0, names0), observed=(prior.n_offsets, list(prior.par_names), len(prior.v0_offsets)))


def check_prior(case, part):
    if case.get("alias"):
        return check_prior_alias(case, part)
    pt_, no = case["poly_trend"], case["n_offsets"]
    lin, offs = lin_names(pt_, no)
    must_accept = case["accept"]
    try:
        prior = build_prior(case)
        raised = None
    except Exception as e:
        prior, raised = None, e
    part.record(case, outcome=(type(raised).__name__ if raised else "accepted",), nontrivial=not must_accept)
    if must_accept:
        if raised is not None:
            part.violation(case, f"a valid prior specification was refused: {type(raised).__name__}: {raised}")
            return
        want = NONLINEAR + lin + offs
        if list(prior.par_names) != want:
            part.violation(case, "par_names are not in the order nonlinear, linear, offsets", expected=want, observed=list(prior.par_names))
        if prior.n_offsets != no or prior.poly_trend != pt_:
            part.violation(case, "poly_trend / n_offsets not recorded", expected=(pt_, no), observed=(prior.poly_trend, prior.n_offsets))
    else:
        if raised is None:
            part.violation(case, "an invalid prior specification was accepted: " + repr(case.get("mut")))


def check_default(case, part):
    import astropy.units as u
    import pymc as pm
    import thejoker as tj
    import thejoker.units as xu

    kw = dict(P_min=1 * u.day, P_max=100 * u.day, sigma_K0=30 * u.km / u.s, sigma_v=[100 * u.km / u.s, 1 * u.km / u.s / u.day][: case["poly_trend"]],
              poly_trend=case["poly_trend"])
    if case["poly_trend"] == 1:
        kw["sigma_v"] = 100 * u.km / u.s
    mut = case["mutd"]
    accept = mut in (None, "P_yr", "sigma_K0_ms", "s_ms", "P0_day", "sigma_v_dict")
    if mut == "no_P_min":
        kw.pop("P_min")
    elif mut == "no_P_max":
        kw.pop("P_max")
    elif mut == "no_sigma_K0":
        kw.pop("sigma_K0")
    elif mut == "no_sigma_v":
        kw.pop("sigma_v")
    elif mut == "sigma_v_short":
        kw["sigma_v"] = [100 * u.km / u.s] * (case["poly_trend"] + 1)
    elif mut == "P_min_bad_unit":
        kw["P_min"] = 1 * u.km
    elif mut == "sigma_K0_bad_unit":
        kw["sigma_K0"] = 30 * u.day
    elif mut == "s_bad_unit":
        kw["s"] = 1 * u.day
    elif mut == "s_no_unit":
        kw["s"] = 1.0
    elif mut == "P0_bad_unit":
        kw["P0"] = 1 * u.km
    elif mut == "P_yr":
        kw["P_min"], kw["P_max"] = 0.01 * u.yr, 3 * u.yr
    elif mut == "sigma_K0_ms":
        kw["sigma_K0"] = 3e4 * u.m / u.s
    elif mut == "s_ms":
        kw["s"] = 3 * u.m / u.s
    elif mut == "P0_day":
        kw["P0"] = 100 * u.day
    elif mut == "sigma_v_dict":
        kw["sigma_v"] = {f"v{i}": 10 * u.km / u.s / u.day**i for i in range(case["poly_trend"])}
    elif mut == "sigma_v_list_nounit":
        kw["sigma_v"] = [100.0, 0.5][: case["poly_trend"]]
    elif mut == "sigma_v_dict_nounit":
        kw["sigma_v"] = {f"v{i}": 10.0 for i in range(case["poly_trend"])}
    elif mut == "sigma_v_last_nounit":
        kw["sigma_v"] = ([100 * u.km / u.s, 0.5] if case["poly_trend"] == 2 else [100.0])
    try:
        with pm.Model():
            prior = tj.JokerPrior.default(**kw)
        raised = None
    except Exception as e:
        prior, raised = None, e
    part.record(case, outcome=(type(raised).__name__ if raised else "accepted",), nontrivial=not accept)
    if accept and raised is not None:
        part.violation(case, f"valid JokerPrior.default arguments refused: {type(raised).__name__}: {raised}")
    if not accept and raised is None:
        part.violation(case, "invalid JokerPrior.default arguments accepted")
    if accept and raised is None:
        lin, _ = lin_names(case["poly_trend"], 0)
        if list(prior.par_names) != NONLINEAR + lin:
            part.violation(case, "par_names order", expected=NONLINEAR + lin, observed=list(prior.par_names))


_PRI = {}


def _prior_no(no, pt_=1):
    key = (no, pt_)
    if key not in _PRI:
        _PRI[key] = build_prior(dict(poly_trend=pt_, n_offsets=no, mut=[]))
    return _PRI[key]


def _rv(n=3, seed=0, cov=False):
    import astropy.units as u
    from astropy.time import Time
    import thejoker as tj

    t = 58000.0 + np.arange(n) * 3.1 + seed
    if cov:
        err = (np.eye(n) * 0.8 + 0.01) * (u.km / u.s) ** 2
    else:
        err = np.full(n, 0.7) * u.km / u.s
    return tj.RVData(Time(t, format="mjd", scale="tcb"), (np.arange(n) * 2.0 - 1.0 + seed) * u.km / u.s, err)


def check_data(case, part):
    import astropy.units as u
    import thejoker as tj

    no = case["n_offsets"]
    form, ns = case["form"], case["n_sources"]
    prior = _prior_no(no)
    srcs = [_rv(3, k) for k in range(ns)]
    accept = False
    if form == "bare":
        data = srcs[0]
        accept = no == 0
    elif form == "list":
        data = srcs
        accept = ns - 1 == no
    elif form == "tuple":
        data = tuple(srcs)
        accept = ns - 1 == no
    elif form == "dict":
        data = {f"k{i}": s for i, s in enumerate(srcs)}
        accept = ns - 1 == no
    elif form == "dict_prefix":
        # keys of different lengths, later keys extending the first one
        data = {["apo", "apo_north", "apo_n"][i]: s for i, s in enumerate(srcs)}
        accept = ns - 1 == no
    elif form == "list_nonrv":
        data = srcs[:-1] + [np.arange(3.0)]
    elif form == "dict_nonrv":
        data = {f"k{i}": s for i, s in enumerate(srcs[:-1])}
        data["bad"] = "not data"
    elif form == "list_cov":
        data = srcs[:-1] + [_rv(3, 9, cov=True)]
        accept = False
    elif form == "bare_cov":
        data = _rv(3, 0, cov=True)
        accept = None  # single-source covariance data: not fixed by the property (either)
    elif form == "number":
        data = 3.5
    elif form == "string":
        data = "data.hdf5"
    elif form == "none":
        data = None
    elif form == "empty_list":
        data = []
    samples = tj.JokerSamples()
    samples["P"] = [3.3, 17.0] * u.day
    samples["e"] = [0.1, 0.3] * u.one
    samples["omega"] = [1.0, 2.0] * u.rad
    samples["M0"] = [0.5, 4.0] * u.rad
    samples["s"] = [0.0, 0.0] * u.km / u.s
    joker = tj.TheJoker(prior)
    try:
        ll = joker.marginal_ln_likelihood(data, samples, in_memory=True)
        raised = None
    except Exception as e:
        ll, raised = None, e
    part.record(case, outcome=(type(raised).__name__ if raised else "accepted",), nontrivial=accept is False)
    if accept is True and raised is not None:
        part.violation(case, f"matching data/prior refused: {type(raised).__name__}: {raised}")
    elif accept is True and not np.all(np.isfinite(ll)):
        part.violation(case, "matching data/prior gave non-finite likelihoods", observed=ll)
    elif accept is False and raised is None:
        part.violation(case, "the sampler ran although the data sources do not match the offset priors / have an unsupported form", observed=ll)


def check_hist(case, part):
    """call histories on ONE TheJoker with ONE data container mutated in place between calls"""
    import astropy.units as u
    import thejoker as tj

    no = case["n_offsets"]
    prior = _prior_no(no)
    joker = tj.TheJoker(prior)
    samples = tj.JokerSamples()
    samples["P"] = [3.3, 17.0] * u.day
    samples["e"] = [0.1, 0.3] * u.one
    samples["omega"] = [1.0, 2.0] * u.rad
    samples["M0"] = [0.5, 4.0] * u.rad
    samples["s"] = [0.0, 0.0] * u.km / u.s
    srcs = [_rv(3, k) for k in range(3)]
    cont = [] if case["form"] == "list" else {}
    first_ll = {}
    for step, k in enumerate(case["ks"]):
        # mutate the same container object in place to hold k sources
        if case["form"] == "list":
            while len(cont) > k:
                cont.pop()
            while len(cont) < k:
                cont.append(srcs[len(cont)])
        else:
            while len(cont) > k:
                cont.pop(f"k{len(cont) - 1}")
            while len(cont) < k:
                cont[f"k{len(cont)}"] = srcs[len(cont)]
        accept = (k - 1 == no)
        c2 = dict(case, step=step)
        try:
            ll = np.array(joker.marginal_ln_likelihood(cont, samples, in_memory=True))
            raised = None
        except Exception as e:
            ll, raised = None, e
        part.transitions += 1
        if accept and raised is not None:
            part.violation(c2, f"matching data/prior refused after history {case['ks'][:step]}: {type(raised).__name__}: {raised}")
            return
        if not accept and raised is None:
            part.violation(c2, f"the sampler ran on {k} sources with {no} offset priors after history {case['ks'][:step]} on the same TheJoker / container")
            return
        if accept:
            if k in first_ll and not np.array_equal(first_ll[k], ll):
                part.violation(c2, "same data gives different likelihoods later in the history", expected=first_ll[k], observed=ll)
                return
            first_ll.setdefault(k, ll)
    part.record(case, outcome=(tuple(case["ks"]), no), nontrivial=len(set(case["ks"])) > 1)


def check_init(case, part):
    import thejoker as tj

    prior = _prior_no(0)
    k = case["arg"]
    bad = {"prior": dict(prior="prior"), "prior_none": dict(prior=None), "rng_int": dict(prior=prior, rng=42),
           "rng_randomstate": dict(prior=prior, rng=np.random.RandomState(1)), "pool_obj": dict(prior=prior, pool=object()),
           "pool_nomap": dict(prior=prior, pool=type("P", (), {"close": lambda s: None})()),
           "ok": dict(prior=prior, rng=np.random.default_rng(1))}[k]
    try:
        tj.TheJoker(**bad)
        raised = None
    except Exception as e:
        raised = e
    part.record(case, outcome=(type(raised).__name__ if raised else "accepted",), nontrivial=k != "ok")
    if k == "ok" and raised is not None:
        part.violation(case, f"valid TheJoker arguments refused: {raised}")
    if k != "ok" and raised is None:
        part.violation(case, "invalid TheJoker argument accepted")


def run_case(case, part):
    {"prior": check_prior, "default": check_default, "data": check_data, "init": check_init, "hist": check_hist}[case["kind"]](case, part)


def shard(cases):
    part = core.Part()
    for c in cases:
        core.guard(run_case, c, part)
    return part


def bad_unit2(name):
    """a second family of wrong units: angle <-> dimensionless mix-ups (only wrong if no global equivalency is active)"""
    import astropy.units as u

    if name == "e":
        return u.deg
    if name in ("omega", "M0"):
        return u.one
    return None


def single_mutilations(pt_, no):
    lin, offs = lin_names(pt_, no)
    out = []
    for name in ("e", "omega", "M0"):
        out.append(dict(name=name, what="badunit2"))
    for name, tag in (("K", "str"), ("P", "quantity"), ("v0", "tuple"), ("e", "number"), ("omega", "str")) + ((("dv0_1", "quantity"),) if no else ()):
        out.append(dict(name=name, what="badtag", tag=tag))
    for name in NONLINEAR + lin + offs:
        if name not in offs:  # leaving out an offset just declares a prior with fewer offsets (valid)
            out.append(dict(name=name, what="omit"))
        out.append(dict(name=name, what="nounit"))
        out.append(dict(name=name, what="badunit"))
    for name in lin + offs:
        for k in NON_NORMAL:
            out.append(dict(name=name, what="kind", kind=k))
    return out


def valid_variations(pt_, no):
    lin, offs = lin_names(pt_, no)
    out = []
    for name in NONLINEAR + lin + offs:
        if name != "e":
            out.append(dict(name=name, what="altunit"))
    for name in lin + offs:
        for k in VALID_LINEAR:
            out.append(dict(name=name, what="kind", kind=k))
    return out


def build_cases(quick):
    cases = []
    for (pt_, no) in ((1, 0), (2, 1), (3, 2)):
        for pars_as in ("dict", "list", "tuple", "model"):
            cases.append(dict(kind="prior", poly_trend=pt_, n_offsets=no, mut=[], accept=True, pars_as=pars_as))
        cases.append(dict(kind="prior", poly_trend=pt_, n_offsets=no, mut=[], accept=False, pars_as="number"))
        for pa in ("empty_dict", "empty_list", "empty_tuple"):
            cases.append(dict(kind="prior", poly_trend=pt_, n_offsets=no, mut=[], accept=False, pars_as=pa))
        cases.append(dict(kind="prior", poly_trend=pt_, n_offsets=no, mut=[], accept=False, offsets_as="number"))
        cases.append(dict(kind="prior", poly_trend=pt_, n_offsets=no, mut=[], accept=False, model_as="string"))
        # every single mutilation again with the parameters handed over as a list / taken from the model
        for m in single_mutilations(pt_, no):
            for pars_as in ("list", "model"):
                cases.append(dict(kind="prior", poly_trend=pt_, n_offsets=no, mut=[m], accept=False, pars_as=pars_as))
        bad = single_mutilations(pt_, no)
        good = valid_variations(pt_, no)
        if no:
            for then in ("append", "clear"):
                cases.append(dict(kind="prior", poly_trend=pt_, n_offsets=no, mut=[], accept=True, alias=True, then=then))
        if no >= 2:
            cases.append(dict(kind="prior", poly_trend=pt_, n_offsets=no, mut=[], accept=False, offsets_as="dup_first"))
        if no:
            for oa in ("tuple", "iter", "gen"):
                cases.append(dict(kind="prior", poly_trend=pt_, n_offsets=no, mut=[], accept=True, offsets_as=oa))
                for m in bad:
                    if m["name"].startswith("dv0_"):
                        cases.append(dict(kind="prior", poly_trend=pt_, n_offsets=no, mut=[m], accept=False, offsets_as=oa))
        for m in bad:
            cases.append(dict(kind="prior", poly_trend=pt_, n_offsets=no, mut=[m], accept=False))
        for m in good:
            cases.append(dict(kind="prior", poly_trend=pt_, n_offsets=no, mut=[m], accept=True))
        # a valid variation next to a mutilation must not mask it
        pair_bad = bad if not quick else bad[::5]
        for m in pair_bad:
            for g in (good if not quick else good[::4]):
                if g["name"] != m["name"]:
                    cases.append(dict(kind="prior", poly_trend=pt_, n_offsets=no, mut=[m, g], accept=False))
        if not quick:
            for m1, m2 in itertools.combinations(bad[::3], 2):
                if m1["name"] != m2["name"]:
                    cases.append(dict(kind="prior", poly_trend=pt_, n_offsets=no, mut=[m1, m2], accept=False))
    for pt_ in (1, 2):
        for mut in (None, "no_P_min", "no_P_max", "no_sigma_K0", "no_sigma_v", "sigma_v_short", "P_min_bad_unit", "sigma_K0_bad_unit",
                    "s_bad_unit", "s_no_unit", "P0_bad_unit", "P_yr", "sigma_K0_ms", "s_ms", "P0_day", "sigma_v_dict",
                    "sigma_v_list_nounit", "sigma_v_dict_nounit", "sigma_v_last_nounit"):
            cases.append(dict(kind="default", poly_trend=pt_, mutd=mut))
    for no in (0, 1, 2):
        for form in ("bare", "bare_cov", "number", "string", "none", "empty_list"):
            cases.append(dict(kind="data", n_offsets=no, form=form, n_sources=1))
        for ns in (1, 2, 3):
            for form in ("list", "tuple", "dict", "dict_prefix"):
                cases.append(dict(kind="data", n_offsets=no, form=form, n_sources=ns))
        for ns in (2, 3):
            for form in ("list_nonrv", "dict_nonrv", "list_cov"):
                cases.append(dict(kind="data", n_offsets=no, form=form, n_sources=ns))
    for no in (0, 1, 2):
        for form in ("list", "dict"):
            for n in (2, 3):
                for ks in itertools.product((1, 2, 3), repeat=n):
                    cases.append(dict(kind="hist", n_offsets=no, form=form, ks=list(ks)))
    for a in ("prior", "prior_none", "rng_int", "rng_randomstate", "pool_obj", "pool_nomap", "ok"):
        cases.append(dict(kind="init", arg=a))
    return cases


def main():
    chk = core.Check(
        PID, "exploration",
        "for (poly_trend, n_offsets) in {(1,0),(2,1),(3,2)}: the valid spec; every single mutilation {omitted, no unit, "
        "non-convertible unit} of every parameter; every non-Normal prior (15 kinds) on every linear parameter and offset; valid "
        "variations (equivalent units, Normal with non-zero mean); mutilation+valid-variation pairs (thorough: also pairs of "
        "mutilations); JokerPrior.default argument mutilations; data forms x n_sources 1..3 x n_offsets 0..2 through "
        "TheJoker.marginal_ln_likelihood; every call history of length 2..3 over source counts {1,2,3} on ONE TheJoker with ONE container "
        "mutated in place (list / dict) x n_offsets; TheJoker.__init__ arguments. Non-trivial: the case must be refused.",
    )
    cases = build_cases(chk.quick)
    chk.bounds = {"cases": len(cases)}
    chk.merge(core.parallel(shard, core.interleave(cases, core.NPROC)))
    chk.assumptions += ["any exception counts as a refusal", "single-source data with a full covariance matrix is not fixed by the property (either outcome accepted)"]
    return chk.finish(run_case)


def replay(doc):
    part = core.Part()
    run_case(doc["case"], part)
    for v in part.violations:
        print("REPRODUCED:", v["msg"], "\n expected:", v.get("expected"), "\n observed:", v.get("observed"))
    print("violations:", len(part.violations))
    return 1 if part.violations else 0
