"""C02 — rejection step keeps sample i iff exp(ll_i - max) > u_i, unaltered (E2 on the real sampler)."""
import itertools

import numpy as np

from .. import core, seams
from .. import sampler_driver as drv

PID = "C02"


def expected(case):
    N = case["N"]
    lls = list(case["ll_values"]) if "ll_values" in case else [drv.LL_ALPHABET[c] for c in case["ll"]]
    o = case["opts"]
    if case["path"] == "inmem":
        E = list(range(N))
    else:
        npri = o.get("n_prior_samples") or N
        if o.get("randomize_prior_order"):
            E = list(case["perm"])[:npri]
        else:
            E = list(range(npri))
    llE = np.array([lls[i] for i in E])
    if not np.any(np.isfinite(llE)):
        return None
    r = np.exp(llE - llE.max())
    u = np.array([drv.u_for(case["ucodes"][i], r[k]) for k, i in enumerate(E)])
    acc = [i for k, i in enumerate(E) if r[k] > u[k]]
    mp = o.get("max_posterior_samples")
    if mp is not None:
        acc = acc[:mp]
    return dict(E=E, r=r, u=u, acc=acc, lls=lls)


def run_case(case, part):
    exp = expected(case)
    if exp is None:
        part.add("skipped_no_finite_likelihood")
        return
    N = case["N"]
    lls = exp["lls"]
    o = dict(case["opts"])
    nlin = o.get("n_linear_samples", 1)

    def plan(k, ids, ll_so_far):
        a = np.array(ll_so_far)
        r = np.exp(a - a.max())
        return [drv.u_for(case["ucodes"][i], r[j]) for j, i in enumerate(ids)]

    run = drv.call_sampler("rejection", N, lls, case["path"], o, plan, perm=case.get("perm"), pool_spec=case.get("pool"), lib_dtype=case.get("dtype"))
    want_ids = [i for i in exp["acc"] for _ in range(nlin)]
    outcome = None
    if run.exc is not None:
        part.record(case, outcome=("exc", type(run.exc).__name__))
        part.violation(case, f"rejection_sample raised {type(run.exc).__name__}: {run.exc}", expected=want_ids)
        return
    probs = list(run.problems)
    got_ids = drv.check_rows_unaltered(run.result, probs)
    rej_edge = any(case["ucodes"][i] in ("r", "p") and 0 < exp["r"][k] for k, i in enumerate(exp["E"]))
    part.record(case, outcome=(tuple(got_ids),), nontrivial=(0 < len(exp["acc"]) < len(exp["E"])) or rej_edge)
    if probs:
        part.violation(case, probs[0], expected=want_ids, observed=got_ids)
        return
    if got_ids != want_ids:
        part.violation(case, "returned rows != evaluated rows with exp(ll - max) > u, in evaluation order, each n_linear times "
                       f"(E={exp['E']}, ratios={exp['r'].tolist()}, u={exp['u'].tolist()})", expected=want_ids, observed=got_ids)
        return
    un = [e for e in run.rng_log if e[0] == "uniform"]
    if len(un) != 1 or un[0][1] != 0.0 or un[0][2] != 1.0 or int(np.prod(un[0][3])) != len(exp["E"]):
        part.violation(case, "the acceptance uniforms are not exactly one uniform(0,1) vector of length n_evaluated drawn from the sampler's generator",
                       expected=("uniform", 0.0, 1.0, len(exp["E"])), observed=[e[:4] for e in un])
        return
    ch = [e for e in run.rng_log if e[0] == "choice"]
    if case["path"] != "inmem" and o.get("randomize_prior_order"):
        npri = o.get("n_prior_samples") or N
        if len(ch) != 1 or ch[0][1] != N or ch[0][2] != npri or ch[0][3] is not False:
            part.violation(case, "randomize_prior_order must draw n_prior_samples distinct rows (replace=False) of the library from the sampler's generator",
                           expected=("choice", N, npri, False), observed=ch)
            return
    elif ch:
        part.violation(case, "unexpected choice() draw", observed=ch)
        return
    if o.get("return_all_logprobs"):
        want = [lls[i] for i in exp["E"]]
        if run.all_ll is None or not np.array_equal(np.asarray(run.all_ll), np.asarray(want)):
            part.violation(case, "return_all_logprobs: second return value != likelihoods of the evaluated samples in evaluation order",
                           expected=want, observed=run.all_ll)
            return
    # linear draws belong to the returned row (mean tag = id) - a sanity check that rows were not re-paired
    import astropy.units as u

    K = np.atleast_1d(run.result["K"].to_value(u.km / u.s))
    for k, i in enumerate(got_ids):
        if abs(K[k] - i) > 8.0:
            part.violation(case, f"linear draw of returned row {k} does not belong to library row {i}", observed=K.tolist())
            return


def shard(cases):
    part = core.Part()
    for c in cases:
        core.guard(run_case, c, part)
    return part


def ucode_alphabet(llcodes):
    """per row: the acceptance-relevant uniform answers given the profile"""
    lls = np.array([drv.LL_ALPHABET[c] for c in llcodes])
    mx = lls.max()
    out = []
    for v in lls:
        if v == mx:
            out.append("zo")  # maximum: must survive u=0 and u just below 1
        elif np.isfinite(v):
            out.append("arp")  # just below the ratio (accept), at the ratio (reject), just above (reject)
        else:
            out.append("z")  # ratio 0: even u = 0 must reject
    return out


def build_cases(quick):
    inmem, filec = [], []
    Ns = (1, 2, 3, 4) if quick else (1, 2, 3, 4, 5)
    for N in Ns:
        alpha = "0hmi" if N <= 3 or not quick else "0hi"
        if N == 5:
            alpha = "0hi"
        for prof in itertools.product(alpha, repeat=N):
            if all(c == "i" for c in prof):
                continue
            ua = ucode_alphabet(prof)
            for uc in itertools.product(*ua):
                for mp in (None, 1, 2, N + 1):
                    for nlin in (1, 2):
                        if N >= 4 and nlin == 2 and mp not in (None, 2):
                            continue
                        inmem.append(dict(kind="rej", N=N, ll=list(prof), ucodes=list(uc), path="inmem",
                                          opts=dict(max_posterior_samples=mp, n_linear_samples=nlin,
                                                    return_all_logprobs=(mp is None and nlin == 1))))
                        if N >= 2 and nlin == 1 and mp in (None, 2):
                            # the batching option given on the in-memory path (documented as unused there): the rule is still
                            # "against the maximum over ALL evaluated samples"
                            inmem.append(dict(kind="rej", N=N, ll=list(prof), ucodes=list(uc), path="inmem",
                                              opts=dict(max_posterior_samples=mp, n_linear_samples=1, n_batches=2 if mp is None else N)))
    # file paths: options that only exist there
    NsF = (1, 2, 3) if quick else (1, 2, 3, 4)
    for N in NsF:
        alpha = "0hi" if (quick or N == 4) else "0hmi"
        perms = [None] + [list(p) for p in itertools.permutations(range(N))][1:]
        if N >= 3 and quick:
            perms = [None, [2, 0, 1], [1, 2, 0], [2, 1, 0]]
        if N == 4:
            perms = [None, [3, 1, 0, 2], [1, 0, 3, 2], [2, 3, 0, 1]]
        for prof in itertools.product(alpha, repeat=N):
            if all(c == "i" for c in prof):
                continue
            ua = ucode_alphabet(prof)
            for uc in itertools.product(*[a if len(a) < 3 or not quick else a[:2] for a in ua]):
                for path in ("obj", "file"):
                    for npri in sorted({None, 1, max(1, N - 1), N}, key=lambda x: (x is not None, x)):
                        for perm in perms:
                            for nb, pool in ((None, ("serial",)), (2, ("serial",)), (N + 1, ("model", 2, 1, True)), (None, ("model", 3, 2, False))):
                                if quick and path == "obj" and pool[0] == "model":
                                    continue
                                mp = {None: None, 1: 1, 2: None}.get(npri, 2)
                                filec.append(dict(kind="rej", N=N, ll=list(prof), ucodes=list(uc), path=path, perm=perm,
                                                  pool=list(pool),
                                                  opts=dict(max_posterior_samples=mp, n_prior_samples=npri, n_linear_samples=1 if nb else 2,
                                                            n_batches=nb, randomize_prior_order=perm is not None,
                                                            return_all_logprobs=(nb is None))))
    # a few LARGE libraries (size thresholds, block-wise code paths): N = 300 and 20000 rows, deterministic profile
    for N, nbs in ((300, (None, 7)), (20000, (None,))) if quick else ((300, (None, 7, 301)), (20000, (None, 16)), (70000, (None,))):
        llv = [-(((i * 0.37) % 5.0) + (0.0 if i % 97 else -0.0)) for i in range(N)]
        llv[N // 3] = 0.5  # the unique maximum (positive)
        uc = ["a" if i % 3 else "r" for i in range(N)]
        inmem.append(dict(kind="rej", N=N, ll_values=llv, ucodes=uc, path="inmem", opts=dict(max_posterior_samples=None, n_linear_samples=1)))
        if N == 20000:
            # the same library stored in single precision
            inmem.append(dict(kind="rej", N=N, ll_values=llv, ucodes=uc, path="inmem", dtype="float32", opts=dict(max_posterior_samples=None, n_linear_samples=1)))
        for nb in nbs:
            for perm in (None, [(i * 7 + 3) % N for i in range(N)] if N % 7 else None):
                if N > 1000 and perm is not None:
                    continue
                filec.append(dict(kind="rej", N=N, ll_values=llv, ucodes=uc, path="file", perm=perm, pool=["serial"],
                                  opts=dict(max_posterior_samples=None, n_prior_samples=None if N > 1000 else N - 1, n_linear_samples=1, n_batches=nb,
                                            randomize_prior_order=perm is not None, return_all_logprobs=False)))
    return inmem, filec


def real_kernel_conformance(quick):
    """the same rule on the real compiled kernel: likelihoods come from marginal_ln_likelihood on a real data set"""
    import astropy.units as u
    import thejoker as tj
    from .. import problems as pb

    part = core.Part()
    rows = np.array([[1.3, 0.9, 1.0, 0.5, 0.0], [700.0, 0.0, 4.0, 3.0, 0.0], [3.7, 0.0, 0.2, 6.0, 0.0], [45.0, 0.6, 5.5, 1.2, 0.0], [180.0, 0.3, 3.3, 4.4, 0.0]])
    prior, _ = pb.make_prior()
    data, _ = pb.make_data(n=4, layout="short", err="large")
    lib = pb.make_samples(rows)
    L = np.array(tj.TheJoker(prior).marginal_ln_likelihood(data, lib, in_memory=True))
    r = np.exp(L - L.max())
    N = len(rows)
    for codes in itertools.product("ar", repeat=N):
        for path in (("inmem",) if quick else ("inmem", "obj")):
            for mp in (None, 2):
                uvec = np.array([drv.u_for("z" if r[i] == 1.0 else codes[i], r[i]) for i in range(N)])
                rng = seams.ScriptedGenerator(4, uniform_fn=lambda size, k: uvec[: int(size)])
                joker = tj.TheJoker(prior, rng=rng, tempfile_path=seams.fresh_dir("c02r"))
                case = dict(kind="real", codes=list(codes), path=path, max_posterior_samples=mp)
                try:
                    res = joker.rejection_sample(data, lib, in_memory=(path == "inmem"), max_posterior_samples=mp)
                except Exception as e:
                    part.violation(case, f"rejection_sample (real kernel) raised {type(e).__name__}: {e}")
                    continue
                P = np.atleast_1d(res["P"].to_value(u.day))
                got = [int(np.argmin(np.abs(rows[:, 0] - p))) for p in P]
                want = [i for i in range(N) if r[i] > uvec[i]][: (mp or N)]
                part.record(case, outcome=(tuple(got),), nontrivial=0 < len(want) < N)
                if got != want or not np.array_equal(P, rows[got, 0]):
                    part.violation(case, "real kernel: returned rows != rows with exp(ll - max) > u (ll from marginal_ln_likelihood)", expected=want, observed=got)
                else:
                    part.validated += 1
    return part


def main():
    chk = core.Check(
        PID, "model_checking",
        "real TheJoker.rejection_sample with a stub kernel (likelihood looked up per row id) and a scripted numpy Generator: all "
        "libraries N<=4 (quick) / 5 over the likelihood alphabet {0, ln 1/2, -5, -inf} x every acceptance-relevant uniform answer "
        "per row (adjacent doubles around exp(ll-max): just below / equal / just above; 0 and 1-ulp for the maximum; 0 for ratio 0) "
        "x max_posterior_samples x n_linear_samples (in memory), and on the file paths (object cache / user file) x n_prior_samples "
        "x randomize_prior_order (scripted permutations) x n_batches x pool (Serial, ModelPool chunking/order); plus a few large libraries "
        "(300, 20000, thorough 70000 rows) against size thresholds. A state is an "
        "execution's (library, environment answers, options); a transition is one sampler call. Non-trivial: a strict subset is "
        "accepted or an at-the-edge uniform answer is present.",
    )
    inmem, filec = build_cases(chk.quick)
    chk.bounds = {"in_memory_executions": len(inmem), "file_path_executions": len(filec)}
    chk.merge(core.parallel(shard, core.interleave(inmem, core.NPROC * 2)))
    chk.merge(core.parallel(shard, core.interleave(filec, core.NPROC * 2)))
    chk.total.states = chk.total.evals
    chk.total.transitions = chk.total.evals
    # conformance slice with the real compiled kernel (the stub replaces only the numeric kernel)
    rk = real_kernel_conformance(chk.quick)
    rk.extra["real_kernel_conformance_executions"] = rk.validated
    chk.merge(rk)
    # every enumerated execution is an execution of thejoker's own sampler code (there is no separate model to replay)
    chk.total.validated = chk.total.evals
    chk.assumptions += [
        "stub kernel contract (value depends only on the row; rows passed through unchanged) is what C01/C05 establish for the real kernel",
        "n_prior_samples / randomize_prior_order / n_batches are documented as file-path options and are not demanded on in_memory=True",
        "numpy's uniform is trusted to be uniform; the check decides which draws are used and how",
    ]
    return chk.finish(run_case)


def replay(doc):
    part = core.Part()
    run_case(doc["case"], part)
    for v in part.violations:
        print("REPRODUCED:", v["msg"], "\n expected:", v.get("expected"), "\n observed:", v.get("observed"))
    print("violations:", len(part.violations))
    return 1 if part.violations else 0
