"""Generates /verif/MANIFEST.json from the table below (run: /venv/bin/python -m mc.manifest_gen)."""
import json
import os

VERIF = os.path.dirname(os.path.dirname(os.path.abspath(__file__)))

E1 = "E1 ProductSpace"
E2 = "E2 ChoiceExplorer"
E3 = "E3 HistoryBFS"

CHECKS = {
    "C16": dict(
        engine=E1, category="exploration", design="§4 C16",
        technique="exhaustive enumeration of (n_tasks, n_batches, start, arr, args) and of pool fan-out schedules against a partition oracle",
        text="Every (n_tasks<=96, n_batches<=100 [quick: 24, 28], start_idx incl. one beyond the task count, arr, args) combination of batch_tasks and every "
             "(library size, n_batches, n_prior_samples / index array, pool size, chunk size, chunk order) fan-out through "
             "the real run_worker is enumerated and compared with the partition definition; bounded-exhaustive, which is "
             "the right level for a pure integer function whose branches (remainder, n_batches>n_tasks) all lie inside the bound.",
        note="Trusts numpy slicing and the ModelPool model of multiprocess.Pool.map (contiguous chunks, any order).",
    ),

    "C08": dict(
        engine=E1, category="exploration", design="§4 C08",
        technique="exhaustive enumeration of survey assignments (all surjections of <=7 (quick: 5) epochs onto <=3 surveys, ties, list/dict forms, orders) against a tagged-observation oracle and the reference marginal likelihood",
        text="Every interleaving of up to 7 (quick: 5) epochs over up to 3 surveys, with identical epochs, every input form and survey order, is run through "
             "validate_prepare_data and (sub-product) marginal_ln_likelihood; each merged row is traced back to its survey by a unique tag. "
             "Bounded-exhaustive over the layouts the statement quantifies over; numbers are fixed tags so only structure is explored.",
        note="Trusts astropy Time/Quantity and the reference marginal (long-double Cholesky). For dict input the partition structure and the label of every row (the survey's own key) are demanded; which key is the offset-free reference is not. Plotting helpers are driven on an Agg canvas and the plotted points read back.",
    ),
    "C15": dict(
        engine=E1 + " + " + E3, category="exploration", design="§4 C15",
        technique="exhaustive enumeration of time/NaN/inf patterns, covariance permutations and copy/slice chains against a list-of-triples model",
        text="All time tuples of length <=3/4 over {t1<t2<t3,NaN}, all non-finite placements, clean, input format, unit, t_ref choices, all "
             "permutations of a 3-epoch covariance problem, and all chains (depth 2/3) of copy and every slice/index/mask are compared with a "
             "boring list-of-triples model; differential check that chained states equal directly built ones; to_timeseries -> file -> from_timeseries is an operation of the chains; guess_from_table over column names x time formats/scales; covariances with small non-zero off-diagonals at three scales.",
        note="clean=False with non-finite input and all-dropped inputs are outside the statement and skipped. Trusts astropy.",
    ),
    "C17": dict(
        engine=E1 + " + " + E3, category="exploration", design="§4 C17",
        technique="exhaustive enumeration of small sample tables (sign/angle/unit/metadata alphabets), all index expressions and operation chains against a reference table model and an independent Kepler solver",
        text="Every K sign pattern for N<=3/4 rows with rotated omega alphabet, angle/K/P units and metadata runs through wrap_K, get_t0, "
             "pack/unpack, all index expressions, copy, mean/std, median_period; chains of depth 3/4 over 7 operations (incl. HDF5 round trip) "
             "are compared step by step and against directly built states; tables with 5..10 rows (rows == packed columns), tied periods, numeric t_ref, non-canonical column insertion order.",
        note="Trusts astropy units/Time; twobody's orbit is compared against the independent reference solver on a time grid.",
    ),
    "C18": dict(
        engine=E1, category="exploration", design="§4 C18",
        technique="exhaustive enumeration of single (and paired) mutilations of every prior parameter, non-Normal linear priors, data/prior count matrix and constructor arguments; accept/refuse oracle",
        text="Every single mutilation of every parameter for three (poly_trend, n_offsets) shapes, 12 non-Normal families on every linear "
             "parameter, valid variations, mutilation x variation pairs, JokerPrior.default argument errors, all data forms x source counts x "
             "offset counts (dict keys of different lengths extending one another), offsets handed over as list / tuple / iterator / generator, angle <-> dimensionless unit mix-ups, call histories on one TheJoker with a container mutated in place, TheJoker.__init__ arguments: accepted iff valid.",
        note="Any exception counts as refusal; single-source covariance data is 'either'.",
    ),
    "C19": dict(
        engine=E1, category="exploration", design="§4 C19",
        technique="exhaustive enumeration of observation subsets of a rational phase lattice x periods x bins x input orders, and of all small (ln_prior, ln_likelihood) tables, against exact rational definitions",
        text="All subsets (<=4/6) of a 14-point phase lattice x 3 periods x 3 bin counts x input orders + time reversal are compared with exact "
             "rational-arithmetic definitions of the diagnostics, for sorted / unsorted (sort=False) / raw NaN-polluted input, explicit reference epochs and periods stored in yr / h; all MAP tables with <=3/4 rows over a 9-letter alphabet incl. -inf and a stale ln_posterior column.",
        note="Trusts astropy Time arithmetic; an observation exactly whole cycles after the reference may fall in the first or last bin.",
    ),
    "C02": dict(
        engine=E2, category="model_checking", design="§4 C02",
        technique="exhaustive enumeration of libraries x acceptance-relevant uniform answers x options, executed on the real rejection_sample under a scripted Generator and stub kernel, compared with the acceptance-rule reference",
        text="All libraries up to N=4/5 over a 4-letter likelihood alphabet, every acceptance-relevant uniform answer per row (adjacent doubles "
             "around the ratio), all truncation options, both file paths, scripted permutations, batching and modelled pool schedules are executed "
             "on the real sampler; returned rows, their order, the generator calls and pass-through of the nonlinear columns are compared with "
             "the reference rule. Exhaustive within the alphabets; control flow only (kernel stubbed).",
        note="Stub kernel contract is established on the real kernel by C01/C05; numpy's uniform is trusted.",
    ),
    "C06": dict(
        engine=E2, category="model_checking", design="§4 C06",
        technique="exhaustive enumeration of every acceptance subset x option combination on the real samplers with identifiable ln_prior/ln_likelihood tags per row",
        text="For N<=4, every position of the maximum and every acceptance subset, all option combinations of rejection_sample (paths, batching, "
             "every permutation for N<=3, truncations, n_linear, return_all_logprobs) and the iterative sampler are executed; each returned row's "
             "ln_prior and ln_likelihood must be the tagged values of that row's library id, as plain floats; large-size probes (1100 / 2063 always-accepted rows, permuted) cross the samplers' internal size thresholds.",
        note="Stub kernel; identity encoded in P. Iterative ValueError/RuntimeError outcomes are left to C14.",
    ),
    "C12": dict(
        engine=E3 + " + " + E1, category="model_checking", design="§4 C12",
        technique="explicit-state BFS over write/overwrite/append/read histories on real HDF5 files with a reference file model (state = model content, asserted equal to the file in every state), plus exhaustive enumeration of batch-read selectors",
        text="Breadth-first search to depth 3 (quick) / 8 (thorough: 583 states, 20 034 transitions) over 71 operations per state (13 tables x 4 write modes by name, 4 tables x 4 modes through an open h5py.File, read by name / by file object, batch read) on a real file per state; every "
             "transition checks accept/refuse verdict, byte-identity of the file after a refusal and the full content after acceptance. Batch reads: "
             "every (start, stop, step), every index array of length<=3, scripted random reads x column subsets x unit requests; all columns in reversed / rotated order. The same write/read operations also go through an open h5py.File, append+overwrite is a fourth write mode, and a second sample table in a group of the same file must survive appends.",
        note="None-vs-value t_ref appends are 'either'. Trusts h5py/PyTables/astropy I/O.",
    ),
    "C14": dict(
        engine=E2, category="model_checking", design="§4 C14",
        technique="stateless DFS (prefix replay, deviation-bounded) over per-(iteration, sample) uniform answers of the real iterative sampler for every configuration, with a trace monitor",
        text="For every configuration (library, likelihood profile incl. NaN/-inf, request, batch-size options, budget, n_linear, path, permutation, "
             "pool) all environment answer sequences up to the deviation bound (all of them for N<=2) are executed on the real code; the monitor "
             "checks no double evaluation, budget, result type, acceptance under the last uniform vector, truncation and raise-on-failure.",
        note="Batch sizes are not predicted. 'Library too small' is demanded only when the first batch exceeds the budget.",
    ),
    "C05": dict(
        engine=E3 + " + " + E2, category="model_checking", design="§4 C05",
        technique="exhaustive enumeration (no state merging) of operation histories on one real kernel helper, of execution paths x batching x pools through the public API, and of every chunk-size/chunk-order schedule of a modelled pool; bitwise comparison with fresh-helper singleton values; real MultiPool conformance",
        text="All histories to depth 3/4 over 21 helper operations x 3 prior configurations on the real compiled kernel (rows chosen to collide on "
             "every reused buffer, incl. pickling round trips), all (path, n_batches 1..N+2, pool) combinations with the real kernel, every chunking x "
             "chunk order of the modelled pool on the stub kernel, and the same matrix on real MultiPool(2)/(3): every value must be bitwise the "
             "value of that row alone on a fresh helper, in input order; equal seeds must give the same accepted set (and, for randomised subsets, the same evaluated set as a canonical execution) on every path; the iterative sampler over initial batch size x growth factor with all-zero uniforms returns every finite row with its own values on every path.",
        note="Workers share no memory, so (chunking, order, helper sharing) is the observable schedule space; checked, not proved, by MultiPool conformance runs.",
    ),
    "C10": dict(
        engine=E3 + " + " + E2, category="model_checking", design="§4 C10",
        technique="exhaustive enumeration of call histories on one TheJoker, each executed three times (equal seeds twice, different global random state once) with bitwise output comparison and global-state probes; pool-schedule enumeration; forced-collision stream test",
        text="All histories to depth 2/3 over 9 API operations (incl. prior samples by count, both paths, iterative sampler, prior.sample with and without linear parameters and with the generator under its deprecated keyword) are run "
             "from equal seeds twice and once with different numpy/Python global seeds: outputs bitwise equal per step, global states untouched, "
             "different seed changes the output; file-path operations are bitwise equal across 8 modelled pool schedules and real MultiPool(2); "
             "identical always-accepted rows in different batches and repeated calls never repeat a linear draw; no value drawn by one call of a history re-appears in a later call; the same histories in child interpreters with other PYTHONHASHSEEDs give identical digests; one large request never repeats a draw.",
        note="Stub kernel (fixed function of the row) with the real prior; pymc's draw is trusted to be a function of the generator passed.",
    ),
    "C13": dict(
        engine=E2, category="fault_enumeration", design="§4 C13",
        technique="exhaustive single-fault (thorough: two-fault) injection at every call instruction executed in thejoker's Python code (sys.monitoring), x exception types, with leak / user-file / follow-up oracles",
        text="For 7 API variants x {object cache, user file} x {SerialPool + real kernel, modelled pool + stub with pickling}, every call event "
             "inside thejoker's code (about 7.4k executions quick) fails once; the injected exception itself (or an explicit translation of it) must be what the caller sees, no temporary HDF5 may remain, "
             "the user's file keeps its sha256/mtime and a follow-up call on the same TheJoker returns the reference values. A real MultiPool(2) "
             "slice covers process workers, and a second slice lets batch reads fail inside MultiPool workers with exception classes that are awkward to ship between processes (run in a child interpreter under a watchdog: a hang of pool.map is the violation). Descriptors still open on a (deleted) cache file count as a file left behind. This is the literal quantifier of the property (every call, k-th invocation).",
        note="Faults are exceptions at call boundaries in Python code; SIGKILL / faults inside C calls are outside the model. The cleanup's own unlink / close is excluded from the leak oracle. A deliberate translation of the failure by an explicit raise statement of thejoker (with or without `from`) counts as the failure reaching the caller; an unrelated error raised by a clean-up call does not.",
    ),
    "C01": dict(
        engine=E1, category="exploration", design="§4 C01",
        technique="exhaustive enumeration of the declared product (prior configurations x data shapes x theta grid x API paths) on the real compiled kernel against a closed-form long-double reference, with conditioning-aware bands and defect-twin attribution of the open kernel findings",
        text="Thorough: all 216 prior configurations x 36 data shapes x 1155-1575 theta rows x 3 paths (about 36 M kernel values); quick: a "
             "24-configuration covering subset x 12 shapes x 330 rows. Every value is compared with ln N(y | M mu, C + s^2 I + M Lambda M^T) "
             "from the declared prior; data shapes include explicit (UTC/TCB) and absent (t_ref=False) reference epochs, surveys interleaved in time, mixed units per survey, raw NaN-polluted unsorted input and dicts with unsorted insertion order. A deviation is accepted only if it equals the exact alternative semantics of a listed open kernel "
             "finding whose trigger holds (K1-K4), or lies within the forward-error bound of the kernel's algebraic route (K5/K6).",
        note="The kernel explored is the working tree's generated C (no Cython in the image); numbers outside the grids are not covered. Trusts numpy/long-double arithmetic and the independent Kepler solver.",
    ),
    "C03": dict(
        engine=E1, category="exploration", design="§4 C03",
        technique="exhaustive enumeration of configurations x data x theta x n_linear x path with a recording numpy Generator: (mean, cov, size) handed to multivariate_normal vs reference (a, A), bitwise pass-through of the draws",
        text="Every row of the grid is forced through the rejection step; the arguments of each multivariate_normal call must be the reference "
             "conditional posterior (same prior, cap and jitter as the marginal) and the emitted linear columns must be the generator's draws "
             "bitwise, in design-matrix order and units, next to an unchanged copy of the nonlinear row. The distributional claim is reduced to "
             "this enumerable part plus trust in numpy's sampler.",
        note="numpy's multivariate_normal is trusted; kernel findings K1-K4 attributed by twins.",
    ),
    "C04": dict(
        engine=E1, category="exploration", design="§4 C04",
        technique="exhaustive enumeration of configurations x data x (returned and hand-built) rows: reconstructed orbit vs reference design matrix, and the Bayes identity between API likelihoods and reference prior/posterior",
        text="For every returned row under accept-all scripted uniforms and three hand-built linear vectors per theta (K<0, 3-sigma trends, angles "
             "outside [0,2pi)), and for the rows returned by the iterative sampler (in memory / cache file): samples.t_ref, get_orbit(i).radial_velocity(t)+offset = M(theta)x (also for orbit objects taken first and held while other rows' orbits are requested, after wrap_K on an object whose orbits were built, for the same observations wrapped with another epoch, and for whole-table vs one-row evaluation of fixed-period scans), and mll = ln p(y|theta,x) + ln p(x|theta) - ln N(x|a,A) to 1e-6.",
        note="Survey calibration offsets are removed from the data by the check; ill-conditioned (tiny-error) shapes are left to C01. For t_ref=False data a loud refusal to build a curve is accepted (no epoch on either side), a wrong curve is not.",
    ),
    "C07": dict(
        engine=E1, category="exploration", design="§4 C07",
        technique="exhaustive enumeration of the product of unit assignments (prior parameters, P0, data, library columns) for 9 base problems; metamorphic comparison with the canonical twin on the real kernel",
        text="Every unit assignment (512 quick / 1728 thorough per base problem) of 9 base problems is evaluated in memory and through the "
             "cache-file path: Delta lnL = -N ln(unit ratio), identical accepted set under scripted uniforms placed 20 % away from every ratio, "
             "physically equal (a, A) and returned columns; user files re-written at one name per worker, library files extended by a chunk in the twin's units (refusal or same physical library), and ln_unmarginalized_likelihood with errors in another unit than the velocities; deviations are attributed to the open finding K3 only through its twin.",
        note="astropy conversions trusted; the canonical twin itself is validated by C01.",
    ),
    "C09": dict(
        engine=E1, category="exploration", design="§4 C09",
        technique="exhaustive enumeration of parameterisations x evaluation grids (inside / at / outside the support) against closed-form densities; scripted-uniform inverse-CDF lattice; sampler-parameter graphs on a (P,e) grid; per-row constancy of ln_prior minus declared log-densities",
        text="Log-densities of UniformLog, the Kipping Beta priors and FixedCompanionMass over 72 parameterisations are compared with scipy closed "
             "forms (-inf outside); UniformLog draws are the inverse CDF on a 65-point u lattice; the K sampler's scale graph equals the capped rule "
             "on a grid straddling the cap; prior.sample(return_logprobs=True) rows must have ln_prior equal to the declared joint log-density up to "
             "one constant. Distributional claims are reduced to these enumerable parts plus trust in numpy's samplers.",
        note="No statistical test is run (not in this family). numpy / pymc_ext samplers trusted.",
    ),
    "C11": dict(
        engine=E1, category="exploration", design="§4 C11",
        technique="exhaustive enumeration of 72 (24 quick) prior/unit/jitter/offset configurations x parameter grid on the compiled pymc model (RVs replaced by values) against the reference Kepler/design-matrix model and declared densities",
        text="For each configuration setup_mcmc is called (1 or 5 samples, foreign column units) and model_rv, ln_likelihood and "
             "logp(jacobian=False) are evaluated on 12 points: equality with M(theta)x, with the Gaussian data term, and of log-density "
             "differences with declared prior + Gaussian term (one theta at which the K-variance cap binds only through the eccentricity factor); mcmc_init is the median-period sample in the prior's units (also with log-prob columns present and through a custom_func hook, which must see the one chosen sample); inputs unmodified; from_inference_data returns the chain in the prior's units with divergent draws removed.",
        note="pymc/pytensor graph evaluation trusted; angles entered as unit vectors.",
    ),
}
NOT_YET = {}


def main():
    props = [json.loads(l) for l in open(os.path.join(VERIF, "properties.jsonl"))]
    checks = []
    na = []
    for p in props:
        pid = p["id"]
        if pid in CHECKS:
            c = CHECKS[pid]
            checks.append({
                "property_id": pid,
                "quick_cmd": f"./check {pid} --tier quick",
                "thorough_cmd": f"./check {pid} --tier thorough",
                "evidence_file": f"/verif/evidence/{pid}.json",
                "replay_cmd_template": f"./check {pid} --replay {{path}}",
                "engine": c["engine"],
                "level_claimed": {"category": c["category"], "text": c["text"], "design_ref": c["design"]},
                "level_note": c["note"],
                "technique": c["technique"],
            })
        else:
            na.append({"property_id": pid, "reason": NOT_YET.get(pid, "check not built yet in this session (planned, see DESIGN.md §4); not claimed until it exists")})
    man = {
        "version": 1,
        "setup_cmd": "./setup.sh",
        "hooks": {
            "guard": "THEJOKER_VERIF",
            "enable": "no source hooks are needed: every seam (Generator subclass, duck-typed helper through a TheJoker subclass, pool object, sys.monitoring, wrapped NamedTemporaryFile) is installed from outside; checks import /repo's working tree in place and rebuild the kernel from its generated C",
            "baseline_off_cmd": "cd /repo && /venv/bin/python -m pytest -ra -q -p no:cacheprovider --timeout=900 --continue-on-collection-errors",
            "source_commits": [],
            "add_only": True,
        },
        "engines": [
            {"name": E1, "path": "mc/core.py", "serves_properties": sorted(k for k, v in CHECKS.items() if E1 in v["engine"]),
             "kind_free_text": "complete enumeration of declared finite product spaces on the real code vs a reference model, sharded over 16 processes"},
            {"name": E2, "path": "mc/seams.py", "serves_properties": sorted(k for k, v in CHECKS.items() if E2 in v["engine"]),
             "kind_free_text": "stateless DFS over environment choice sequences (uniform answers, permutations, pool chunking/order, fault points) with prefix replay and iterated deviation bound"},
            {"name": E3, "path": "mc/seams.py", "serves_properties": sorted(k for k, v in CHECKS.items() if E3 in v["engine"]),
             "kind_free_text": "explicit-state BFS over operation histories on real objects/files, states rebuilt by replay, reference-model step comparison"},
        ],
        "checks": checks,
        "not_applicable": na,
        "notes": "All checks run under /venv/bin/python against /repo's working tree; see DESIGN.md. known_findings.json lists open and fixed findings.",
    }
    with open(os.path.join(VERIF, "MANIFEST.json"), "w") as f:
        json.dump(man, f, indent=1)
    print("wrote MANIFEST.json:", len(checks), "checks,", len(na), "not claimed")


if __name__ == "__main__":
    main()
