"""Generates /verif/MANIFEST.json from the table below (run: /venv/bin/python -m mc.manifest_gen)."""
import json
import os

VERIF = os.path.dirname(os.path.dirname(os.path.abspath(__file__)))

E1 = "E1 ProductSpace"
E2 = "E2 ChoiceExplorer"
E3 = "E3 HistoryBFS"

CHECKS = {
    "C16": dict(
        engine=E1, category="exploration", design="§4 C16",
        technique="exhaustive enumeration of (n_tasks, n_batches, start, arr, args) and of pool fan-out schedules against a partition oracle",
        text="Every (n_tasks<=40, n_batches<=45, start_idx, arr, args) combination of batch_tasks and every "
             "(library size, n_batches, n_prior_samples / index array, pool size, chunk size, chunk order) fan-out through "
             "the real run_worker is enumerated and compared with the partition definition; bounded-exhaustive, which is "
             "the right level for a pure integer function whose branches (remainder, n_batches>n_tasks) all lie inside the bound.",
        note="Trusts numpy slicing and the ModelPool model of multiprocess.Pool.map (contiguous chunks, any order).",
    ),
}

NOT_YET = {}


def main():
    props = [json.loads(l) for l in open(os.path.join(VERIF, "properties.jsonl"))]
    checks = []
    na = []
    for p in props:
        pid = p["id"]
        if pid in CHECKS:
            c = CHECKS[pid]
            checks.append({
                "property_id": pid,
                "quick_cmd": f"./check {pid} --tier quick",
                "thorough_cmd": f"./check {pid} --tier thorough",
                "evidence_file": f"/verif/evidence/{pid}.json",
                "replay_cmd_template": f"./check {pid} --replay {{path}}",
                "engine": c["engine"],
                "level_claimed": {"category": c["category"], "text": c["text"], "design_ref": c["design"]},
                "level_note": c["note"],
                "technique": c["technique"],
            })
        else:
            na.append({"property_id": pid, "reason": NOT_YET.get(pid, "check not built yet in this session (planned, see DESIGN.md §4); not claimed until it exists")})
    man = {
        "version": 1,
        "setup_cmd": "./setup.sh",
        "hooks": {
            "guard": "THEJOKER_VERIF",
            "enable": "no source hooks are needed: every seam (Generator subclass, duck-typed helper through a TheJoker subclass, pool object, sys.monitoring, wrapped NamedTemporaryFile) is installed from outside; checks import /repo's working tree in place and rebuild the kernel from its generated C",
            "baseline_off_cmd": "cd /repo && /venv/bin/python -m pytest -ra -q -p no:cacheprovider --timeout=900 --continue-on-collection-errors",
            "source_commits": [],
            "add_only": True,
        },
        "engines": [
            {"name": E1, "path": "mc/core.py", "serves_properties": sorted(k for k, v in CHECKS.items() if E1 in v["engine"]),
             "kind_free_text": "complete enumeration of declared finite product spaces on the real code vs a reference model, sharded over 16 processes"},
            {"name": E2, "path": "mc/seams.py", "serves_properties": sorted(k for k, v in CHECKS.items() if E2 in v["engine"]),
             "kind_free_text": "stateless DFS over environment choice sequences (uniform answers, permutations, pool chunking/order, fault points) with prefix replay and iterated deviation bound"},
            {"name": E3, "path": "mc/seams.py", "serves_properties": sorted(k for k, v in CHECKS.items() if E3 in v["engine"]),
             "kind_free_text": "explicit-state BFS over operation histories on real objects/files, states rebuilt by replay, reference-model step comparison"},
        ],
        "checks": checks,
        "not_applicable": na,
        "notes": "All checks run under /venv/bin/python against /repo's working tree; see DESIGN.md. known_findings.json lists open and fixed findings.",
    }
    with open(os.path.join(VERIF, "MANIFEST.json"), "w") as f:
        json.dump(man, f, indent=1)
    print("wrote MANIFEST.json:", len(checks), "checks,", len(na), "not claimed")


if __name__ == "__main__":
    main()
