"""Drives the real rejection / iterative samplers with the stub kernel and a scripted generator.

Everything except the numeric kernel is thejoker's own code (TheJoker.*, *_helper, *_inmem,
run_worker, batch_tasks, read_batch*, tempfile_decorator, JokerSamples.*).
"""
import os

import numpy as np

from . import seams

NEG_INF = float("-inf")
# 'u': a finite likelihood so far below the others that its acceptance ratio underflows to exactly 0
LL_ALPHABET = {"0": 0.0, "h": float(np.log(0.5)), "m": -5.0, "i": NEG_INF, "n": float("nan"), "u": -800.0}

_LIBFILES = {}


def lib_file(N, with_lnprior):
    key = (N, with_lnprior, os.getpid())
    if key not in _LIBFILES:
        d = seams.fresh_dir("drv")
        path = os.path.join(d, f"lib-{N}-{int(with_lnprior)}-{os.getpid()}.hdf5")
        seams.stub_library(N, ln_prior=lnprior_tags(N) if with_lnprior else None).write(path, overwrite=True)
        _LIBFILES[key] = path
    return _LIBFILES[key]


def lnprior_tags(N):
    return [-(1000.0 + i) for i in range(N)]


def ratio(lls_eval):
    """acceptance ratios in the same floating-point expression the property states: exp(ll - max)"""
    a = np.asarray(lls_eval, dtype=float)
    with np.errstate(all="ignore"):
        return np.exp(a - np.nanmax(a) if np.all(np.isnan(a)) is False else a)


def u_for(code, r):
    """uniform answer for a row with acceptance ratio r; codes: 'a' accept-edge, 'r' reject-edge, 'z' zero,
    'o' just below one, 'p' just above the ratio"""
    if code == "z":
        return 0.0
    if code == "o":
        return seams.nextafter_down(1.0)
    if code == "r":
        return min(float(r), seams.nextafter_down(1.0)) if r < 1.0 else seams.nextafter_down(1.0)
    if code == "a":
        return seams.nextafter_down(float(r)) if r > 0 else 0.0
    if code == "p":
        return min(seams.nextafter_up(float(r)), seams.nextafter_down(1.0))
    raise KeyError(code)


def make_pool(spec):
    if spec is None or spec[0] == "serial":
        import schwimmbad

        return schwimmbad.SerialPool()
    _, size, cs, rev = spec
    return seams.ModelPool(size=size, chunksize=cs, order=(lambda n: list(range(n))[::-1]) if rev else None)


class Run:
    """Observation of one execution."""

    def __init__(self):
        self.exc = None
        self.result = None
        self.all_ll = None
        self.rng_log = []
        self.call_log = []
        self.problems = []
        self.u_vectors = []  # the uniform vectors handed out (ids evaluated so far, u values)


def call_sampler(kind, N, lls, path, opts, uniform_plan, perm=None, pool_spec=None, with_lnprior=False, seed=11, lib_dtype=None):
    """kind: 'rejection' | 'iterative'.  uniform_plan(call_index, ids_evaluated_so_far, lls_so_far) -> u array.
    perm: answer of rng.choice (full permutation of range(N)); None -> real choice must not be called
    (or identity)."""
    import thejoker as tj

    table = {i: lls[i] for i in range(N)}
    run = Run()
    seams.reset_logs()

    def evaluated_ids():
        return [i for e in seams.CALL_LOG if e[0] == "ll" for i in e[1]]

    choice_state = {}

    def base_order():
        # the order in which evaluated samples reach the sampler: the (scripted) permutation prefix when the
        # sampler asked for one, the library order otherwise (pool.map returns results in task order)
        if "args" in choice_state:
            p = list(perm) if perm is not None else list(range(N))
            return p[: int(choice_state["args"][1])]
        return list(range(N))

    def uniform_fn(size, k):
        base = base_order()
        n = 0 if size is None else int(np.prod(size))
        if size is None or n > len(base):
            run.problems.append(f"uniform(size={size}) requested but at most {len(base)} samples can have been evaluated")
            return np.zeros(n)
        ids = base[:n]
        ev = evaluated_ids()
        if sorted(ev) != sorted(ids):
            run.problems.append(f"uniform vector of length {n} drawn but the samples evaluated so far are {ev} (expected a permutation of {ids})")
        u = np.asarray(uniform_plan(k, ids, [table[i] for i in ids]), dtype=float)
        run.u_vectors.append((list(ids), u.tolist()))
        return u

    def choice_fn(a, size, replace):
        # the FIRST request for a random order gets the scripted permutation; a sampler that asks again within the same call
        # gets another one (a real generator never repeats itself), so using a second draw as if it were the first shows
        choice_state["n"] = choice_state.get("n", 0) + 1
        p = list(perm) if perm is not None else list(range(int(a)))
        if choice_state["n"] > 1:
            r = (choice_state["n"] - 1) % max(len(p), 1)
            return (p[r:] + p[:r])[: int(size)]
        choice_state["args"] = (int(a), int(size), bool(replace))
        return p[: int(size)]

    rng = seams.ScriptedGenerator(seed, uniform_fn=uniform_fn, choice_fn=choice_fn)
    pool = make_pool(pool_spec)
    scratch = seams.fresh_dir("tmpf")
    joker = seams.make_stub_joker(table, rng, pool=pool, tempfile_path=scratch)
    if path == "file":
        prior_samples = lib_file(N, with_lnprior)
        in_memory = False
    else:
        prior_samples = seams.stub_library(N, ln_prior=lnprior_tags(N) if with_lnprior else None, dtype=lib_dtype)
        in_memory = path == "inmem"
    before = None
    if not isinstance(prior_samples, str):
        before = {k: np.array(prior_samples.tbl[k].value if hasattr(prior_samples.tbl[k], "value") else prior_samples.tbl[k]).copy()
                  for k in prior_samples.par_names}
    else:
        import hashlib

        with open(prior_samples, "rb") as fh:
            before = hashlib.sha256(fh.read()).hexdigest()
    try:
        if kind == "rejection":
            res = joker.rejection_sample(None, prior_samples, in_memory=in_memory, **opts)
        else:
            res = joker.iterative_rejection_sample(None, prior_samples, in_memory=in_memory, **opts)
        if isinstance(res, tuple):
            run.result, run.all_ll = res[0], np.asarray(res[1])
        else:
            run.result = res
    except BaseException as e:  # noqa
        if isinstance(e, (KeyboardInterrupt, SystemExit, seams.HarnessDivergence)):
            raise
        run.exc = e
    # the caller's library (object or file) must come back unmodified
    if isinstance(before, dict):
        for k, v in before.items():
            if k not in prior_samples.par_names:
                run.problems.append(f"column {k} disappeared from the caller's prior-samples object")
                break
            now = np.array(prior_samples.tbl[k].value if hasattr(prior_samples.tbl[k], "value") else prior_samples.tbl[k])
            if now.shape != v.shape or not np.array_equal(now, v, equal_nan=True):
                run.problems.append(f"the sampler modified column {k} of the caller's prior-samples object")
                break
        if list(before) != list(prior_samples.par_names) and not run.problems:
            run.problems.append("the sampler changed the columns of the caller's prior-samples object")
    else:
        import hashlib

        with open(prior_samples, "rb") as fh:
            if hashlib.sha256(fh.read()).hexdigest() != before:
                run.problems.append("the sampler modified the user's prior-samples file")
    run.rng_log = list(rng.log)
    run.call_log = list(seams.CALL_LOG)
    run.choice_args = choice_state.get("args")
    leftovers = [f for f in os.listdir(scratch) if f.endswith(".hdf5")]
    if leftovers:
        run.problems.append(f"temporary files left behind: {leftovers}")
    return run


def returned_rows(samples):
    """(ids, per-row dict of nonlinear values, linear draws) of a returned JokerSamples"""
    import astropy.units as u

    P = np.atleast_1d(samples["P"].to_value(u.day))
    ids = [seams.StubHelper.row_id(p) for p in P]
    cols = {
        "P": P,
        "e": np.atleast_1d(np.asarray(samples["e"], dtype=float)),
        "omega": np.atleast_1d(samples["omega"].to_value(u.rad)),
        "M0": np.atleast_1d(samples["M0"].to_value(u.rad)),
        "s": np.atleast_1d(samples["s"].to_value(u.km / u.s)),
    }
    return ids, cols


def library_row(i):
    return {"P": 1.0 + i, "e": (i + 1) / 64.0, "omega": (i + 1) / 8.0, "M0": (i + 1) / 4.0, "s": (i + 1) / 2.0}


def check_rows_unaltered(samples, problems):
    ids, cols = returned_rows(samples)
    for k, i in enumerate(ids):
        want = library_row(i)
        for c in ("P", "e", "omega", "M0", "s"):
            if float(cols[c][k]) != want[c]:
                problems.append(f"returned row {k} (library id {i}): column {c} = {cols[c][k]!r} is not the library value {want[c]!r}")
                return ids
    return ids
