"""Shared builders: real priors / data sets / libraries together with their *declared* description
(the harness's own statement of what it built, used by the reference models)."""
import numpy as np

T0 = 57000.0
_CACHE = {}


def make_prior(kind="default", poly_trend=1, n_offsets=0, sigma_K0=30.0, P0_days=365.25, sigma_v=(100.0, 2.0, 0.05),
               mu_v=(0.0, 0.0, 0.0), K_custom=(0.0, 25.0), off_sig=(3.0, 5.0), off_mu=(0.0, 0.0), v_unit="km/s",
               P_unit="day", P_lim=(1.0, 1000.0), s_const=0.0, cache=True, K_unit=None, v_time_unit="day", P0_unit="day", int_consts=False, mu_K=0.0):
    """Returns (JokerPrior, declared) - declared holds plain numbers in km/s and days."""
    import astropy.units as u
    import pymc as pm
    import thejoker as tj
    import thejoker.units as xu
    from thejoker.distributions import FixedCompanionMass

    key = (kind, poly_trend, n_offsets, sigma_K0, P0_days, tuple(sigma_v), tuple(mu_v), tuple(K_custom), tuple(off_sig), tuple(off_mu),
           v_unit, P_unit, tuple(P_lim), s_const, K_unit, v_time_unit, P0_unit, int_consts, mu_K)

    def num(x):
        # int_consts: integral prior constants are written as Python ints, as in the documentation's examples
        # (`pm.Normal("dv0_1", 0, 10)`); pytensor then stores them as int8 / int16 / int32 constants
        x = float(x)
        return int(x) if (int_consts and x.is_integer()) else x

    if cache and key in _CACHE:
        return _CACHE[key]
    vu = u.km / u.s if v_unit == "km/s" else u.m / u.s
    vf = 1.0 if v_unit == "km/s" else 1000.0  # numeric factor km/s -> v_unit
    K_unit = K_unit or v_unit
    Ku = u.km / u.s if K_unit == "km/s" else u.m / u.s
    Kf = 1.0 if K_unit == "km/s" else 1000.0
    tu = u.day if v_time_unit == "day" else u.yr
    tf = 1.0 if v_time_unit == "day" else 365.25  # days per time unit of the trend priors
    Pu = {"day": u.day, "yr": u.yr, "h": u.hour}[P_unit]
    Pf = (1 * u.day).to_value(Pu)
    with pm.Model() as model:
        offs = [xu.with_unit(pm.Normal(f"dv0_{k + 1}", num(off_mu[k] * vf), num(off_sig[k] * vf)), vu) for k in range(n_offsets)]
        pars = {}
        if any(m != 0 for m in mu_v[:poly_trend]) or kind == "custom":
            # custom linear trend priors (non-zero means need explicit Normals)
            for i in range(poly_trend):
                # v_i unit: velocity / day^i  (prior may be declared in v_unit)
                pars[f"v{i}"] = xu.with_unit(pm.Normal(f"v{i}", num(mu_v[i] * vf * tf**i), num(sigma_v[i] * vf * tf**i)), vu / tu**i)
        if kind == "custom":
            pars["K"] = xu.with_unit(pm.Normal("K", num(K_custom[0] * Kf), num(K_custom[1] * Kf)), Ku)
        elif mu_K:
            # the default (period- and eccentricity-scaled) K prior built directly, with a NON-ZERO mean: the nonlinear priors it
            # depends on have to be declared first
            from thejoker.distributions import Kipping13Global, UniformLog

            Pv_ = xu.with_unit(UniformLog("P", P_lim[0] * Pf, P_lim[1] * Pf), Pu)
            ev_ = xu.with_unit(Kipping13Global("e"), u.one)
            P0q = (P0_days * u.day) if P0_unit == "day" else (P0_days / 365.25 * u.yr)
            pars["P"], pars["e"] = Pv_, ev_
            pars["K"] = xu.with_unit(FixedCompanionMass("K", P=Pv_, e=ev_, sigma_K0=sigma_K0 * Kf * Ku, P0=P0q, mu=mu_K * Kf), Ku)
        sv = [sigma_v[i] * vf * tf**i * vu / tu**i for i in range(poly_trend)]
        prior = tj.JokerPrior.default(
            P_min=P_lim[0] * Pf * Pu, P_max=P_lim[1] * Pf * Pu, sigma_K0=sigma_K0 * Kf * Ku, P0=(P0_days * u.day) if P0_unit == "day" else (P0_days / 365.25 * u.yr),
            sigma_v=sv if poly_trend > 1 else sv[0], s=s_const * vf * vu, poly_trend=poly_trend, v0_offsets=offs, model=model,
            pars=pars if pars else None,
        )
    L = 1 + poly_trend + n_offsets
    mu = np.zeros(L)
    sig = np.zeros(L)
    mu[1] = mu_v[0]
    sig[1] = sigma_v[0]
    for k in range(n_offsets):
        mu[2 + k] = off_mu[k]
        sig[2 + k] = off_sig[k]
    for i in range(1, poly_trend):
        mu[1 + n_offsets + i] = mu_v[i]
        sig[1 + n_offsets + i] = sigma_v[i]
    if kind == "custom":
        declared = dict(kind="custom", mu_K=K_custom[0], sigma_K=K_custom[1], mu=mu, sig=sig)
    else:
        declared = dict(kind="default", sigma_K0=sigma_K0, P0=P0_days, max_K=500.0, mu_K=mu_K, mu=mu, sig=sig)
    declared["P_prior_unit_in_days"] = (1 * Pu).to_value(u.day)
    declared["poly_trend"] = poly_trend
    declared["n_offsets"] = n_offsets
    out = (prior, declared)
    if cache:
        _CACHE[key] = out
    return out


def shape_tref(sh, n_offsets):
    """reference-epoch argument of a data shape: default (earliest epoch) / explicit / 'none' (t_ref=False); single survey only"""
    if n_offsets or not sh["tref"]:
        return None
    return False if sh["tref"] == "none" else (T0 - 3.25)


def make_data(n=5, layout="short", err="hetero", unit="km/s", t_ref=None, seed=0, n_surveys=1, mixed_units=False, t_ref_scale="tcb", interleave=False, y_from=None, raw="clean", container="list", sliced=False, tform="time"):
    """Returns (data or list of data, plain dict t, y, sig [km/s], t_ref, labels).

    tform: how the epochs are handed to RVData - "time" (astropy Time), "float" (plain float64 array of BMJD, a documented form)
    or "int" (plain integer-dtype array of whole-day BMJD stamps).

    raw="dirty": every RVData is built from epochs in scrambled order with two unusable rows mixed in (NaN velocity at an epoch
    BEFORE all others, infinite error in the middle) - the documented cleaning + sorting must leave exactly the observations
    described by the returned dict.  container="dict": several surveys are handed over as a dict whose keys sort like the survey
    numbers but are inserted in another order."""
    import astropy.units as u
    from astropy.time import Time
    import thejoker as tj
    from .core import seeded_jitter

    j = np.array([seeded_jitter(seed, "data", layout, k) for k in range(n)])
    if layout == "short":
        t = T0 + np.sort(np.arange(n) * 2.3 + j * 1.5)
    elif layout == "long":
        t = T0 + np.sort(np.arange(n) * 230.0 + j * 150.0)
    else:  # repeated epochs
        t = T0 + np.sort(np.array([(k // 2) * 7.7 for k in range(n)]) + 0.0)
    if tform == "int":
        t = np.sort(np.round(t))
    y = 12.0 * np.sin(np.arange(n) * 1.7 + 0.3 + seed) + 3.0 + j
    if y_from is not None:
        # noiseless data generated from the model itself at theta = y_from (P, e, omega, M0): K=7, v0=3 km/s
        from .ref import kepler

        tr0 = float(t.min()) if t_ref is None else (0.0 if t_ref is False else float(t_ref))
        y = 7.0 * kepler.zfunc(t, y_from[0], y_from[1], y_from[2], y_from[3], tr0) + 3.0
    if err == "small":
        sig = 0.02 * (1 + 0.2 * (np.arange(n) % 3))
    elif err == "uniform":
        sig = np.full(n, 0.8)
    elif err == "hetero":
        sig = 0.3 + 0.9 * ((np.arange(n) * 5) % 7) / 3.0
    elif err == "tiny":
        sig = np.full(n, 1e-3) * (1 + np.arange(n) % 3)
    else:  # large
        sig = np.full(n, 50.0) * (1 + 0.1 * (np.arange(n) % 3))
    uu = {"km/s": u.km / u.s, "m/s": u.m / u.s, "cm/s": u.cm / u.s}[unit]
    f = {"km/s": 1.0, "m/s": 1000.0, "cm/s": 1e5}[unit]
    labels = np.zeros(n, dtype=int)
    kw = {}
    tr = float(t.min())
    if t_ref is False:
        # documented option: no reference epoch is subtracted -> phases are relative to BMJD 0
        kw["t_ref"] = False
        tr = 0.0
    elif t_ref is not None:
        trT = Time(float(t_ref), format="mjd", scale=t_ref_scale)
        kw["t_ref"] = trT
        tr = float(trT.tcb.mjd)  # the reference epoch is barycentric (TCB) MJD internally, whatever scale it was given in
    def mk(tt_, yy_, ss_, **kws):
        if raw == "dirty":
            m = len(tt_)
            perm = np.roll(np.arange(m)[::-1], 1)
            tt2 = np.concatenate([[float(np.min(t)) - 5.0], tt_[perm][: m // 2], [float(np.mean(t)) + 0.123], tt_[perm][m // 2:]])
            yu, su = yy_.unit, ss_.unit
            yy2 = np.concatenate([[np.nan], yy_.value[perm][: m // 2], [1.0], yy_.value[perm][m // 2:]]) * yu
            ss2 = np.concatenate([[1.0], ss_.value[perm][: m // 2], [np.inf], ss_.value[perm][m // 2:]]) * su
            return tj.RVData(Time(tt2, format="mjd", scale="tcb"), yy2, ss2, **kws)
        if tform == "float":
            return tj.RVData(np.array(tt_, dtype=np.float64), yy_, ss_, **kws)
        if tform == "int":
            return tj.RVData(np.array(tt_).astype(np.int64), yy_, ss_, **kws)
        return tj.RVData(Time(tt_, format="mjd", scale="tcb"), yy_, ss_, **kws)

    if n_surveys == 1 and sliced and t_ref is None:
        # the data set is a SELECTION of a longer one (an earlier and a later epoch are cut away by slicing / masking): it is a
        # data set of its own, with its own (default) reference epoch
        tp = np.concatenate([[float(t.min()) - 4.2], t, [float(t.max()) + 6.1]])
        yp = np.concatenate([[7.7], y, [-3.3]])
        sp = np.concatenate([[0.6], sig, [0.7]])
        parent = tj.RVData(Time(tp, format="mjd", scale="tcb"), yp * f * uu, sp * f * uu)
        if sliced == "mask":
            m_ = np.ones(len(tp), dtype=bool)
            m_[0] = m_[-1] = False
            data = parent[m_]
        else:
            data = parent[1:-1]
        # which reference epoch a selection gets is not fixed by any property (its own earliest time, or its parent's): the
        # reference follows the object, and C04 / C15 demand that the object is consistent with itself
        tr = float(data._t_ref_bmjd)
    elif n_surveys == 1:
        data = mk(t, y * f * uu, sig * f * uu, **kw)
    else:
        # time-disjoint surveys (interleaving is C08's subject): contiguous blocks
        bounds = np.linspace(0, n, n_surveys + 1).astype(int)
        data = []
        for k in range(n_surveys):
            sl = slice(bounds[k], bounds[k + 1])
            if interleave:
                # surveys interleaved in time: survey k owns epochs k+1, k+1+S, ... (mod S)
                # (the first listed survey does not hold the earliest epoch)
                sl = np.arange(n)[((k + 1) % n_surveys)::n_surveys]
            labels[sl] = k
            # (the merged data take the unit of the first source handed over: keep that one in the declared unit -
            # survey 0 of a list, survey 1 of the dict built below)
            if mixed_units and k % 2 == (1 if container == "list" else 0):
                # this survey is delivered in another (equivalent) unit than the first one; errors in yet another
                uk, fk = (u.m / u.s, 1000.0) if unit == "km/s" else (u.km / u.s, 1.0)
                data.append(mk(t[sl], y[sl] * fk * uk, (sig[sl] * 1e5) * u.cm / u.s))
            else:
                data.append(mk(t[sl], y[sl] * f * uu, sig[sl] * f * uu))
        tr = float(t.min())
        if container == "dict":
            # keys sort like the survey numbers (the first key in sorted order is the offset-free survey) but are inserted in
            # another order, so the merged rows are NOT in sorted-key order
            keys = ["apogee", "lamost", "weave", "xshooter"][:n_surveys]
            order = list(range(n_surveys))[1:] + [0]
            data = {keys[k]: data[k] for k in order}
    return data, dict(t=t, y=y, sig=sig, t_ref=tr, labels=labels, unit=unit, factor=f)


def make_samples(theta, s_unit="km/s", extra=None, P_unit="day", angle_unit="rad"):
    """JokerSamples from rows (P[d], e, omega[rad], M0[rad], s[km/s]), stored in the requested column units."""
    import astropy.units as u
    import thejoker as tj

    theta = np.atleast_2d(np.asarray(theta, dtype=float))
    s = tj.JokerSamples()
    Pu = {"day": u.day, "yr": u.yr, "h": u.hour}[P_unit]
    au = u.rad if angle_unit == "rad" else u.deg
    s["P"] = (theta[:, 0] * u.day).to(Pu) if P_unit != "day" else theta[:, 0] * u.day
    s["e"] = theta[:, 1] * u.one
    s["omega"] = (theta[:, 2] * u.rad).to(au) if angle_unit != "rad" else theta[:, 2] * u.rad
    s["M0"] = (theta[:, 3] * u.rad).to(au) if angle_unit != "rad" else theta[:, 3] * u.rad
    if s_unit == "km/s":
        s["s"] = theta[:, 4] * u.km / u.s
    else:
        s["s"] = theta[:, 4] * 1000.0 * u.m / u.s
    if extra:
        for k, v in extra.items():
            s[k] = v
    return s


def ref_problem(dd, declared, factor_to_data_unit=1.0):
    """reference Problem in the *data's* unit (declared numbers are km/s -> multiply by factor)"""
    from .ref import marginal

    f = dd["factor"]
    pr = dict(declared)
    pr["mu"] = np.asarray(declared["mu"]) * f
    pr["sig"] = np.asarray(declared["sig"]) * f
    # trend terms: unit is velocity/day^i -> same factor
    if pr["kind"] == "default":
        pr["sigma_K0"] = declared["sigma_K0"] * f
        pr["max_K"] = declared["max_K"] * f
        pr["mu_K"] = declared.get("mu_K", 0.0) * f
    else:
        pr["mu_K"] = declared["mu_K"] * f
        pr["sigma_K"] = declared["sigma_K"] * f
    return marginal.Problem(dd["t"], dd["y"] * f, dd["sig"] * f, dd["t_ref"], dd["labels"], declared["poly_trend"], declared["n_offsets"], pr)
