"""Seams owned by the explorer (all outside thejoker; DESIGN §3.3)."""
import itertools
import os

import numpy as np

# ---------------------------------------------------------------------------
# process-global logs (module-level so that dill round trips keep referring to them)
CALL_LOG = []  # entries: ("ll", [ids]) / ("post", [ids], n_linear, rng_id)
RNG_LOG = []  # entries from ScriptedGenerator / RecordingGenerator


def reset_logs():
    del CALL_LOG[:]
    del RNG_LOG[:]


class HarnessDivergence(Exception):
    """A replayed prefix did not fit the execution (nondeterminism we do not own)."""


# ---------------------------------------------------------------------------
class ScriptedGenerator(np.random.Generator):
    """A numpy Generator whose `uniform` and `choice` are answered by callbacks.

    Built on a real PCG64(SeedSequence) so that `bit_generator._seed_seq.spawn` (used by
    run_worker) and every other method keep working.  Every call is logged in self.log.
    """

    def __new__(cls, seed=0, uniform_fn=None, choice_fn=None):
        return super().__new__(cls, np.random.PCG64(np.random.SeedSequence(seed)))

    def __init__(self, seed=0, uniform_fn=None, choice_fn=None):
        super().__init__(np.random.PCG64(np.random.SeedSequence(seed)))
        self.uniform_fn = uniform_fn
        self.choice_fn = choice_fn
        self.log = []

    def uniform(self, low=0.0, high=1.0, size=None):
        self.log.append(("uniform", low, high, size))
        if self.uniform_fn is None:
            return super().uniform(low, high, size)
        out = np.asarray(self.uniform_fn(size, len([e for e in self.log if e[0] == "uniform"]) - 1), dtype=float)
        return out

    def choice(self, a, size=None, replace=True, p=None, axis=0, shuffle=True):
        self.log.append(("choice", int(a) if np.isscalar(a) else "array", None if size is None else int(size), bool(replace)))
        if self.choice_fn is None:
            return super().choice(a, size=size, replace=replace, p=p, axis=axis, shuffle=shuffle)
        if np.isscalar(a) and size is not None and not replace and int(size) > int(a):
            # numpy's own contract (thejoker relies on it when the budget exceeds the library)
            raise ValueError("Cannot take a larger sample than population when 'replace=False'")
        return np.asarray(self.choice_fn(a, size, replace), dtype=np.int64)

    def multivariate_normal(self, mean, cov, size=None, **kw):
        out = super().multivariate_normal(np.asarray(mean), np.asarray(cov), size=size, **kw)
        self.log.append(("mvn", np.array(mean, dtype=float), np.array(cov, dtype=float), size, np.array(out)))
        return out


class RecordingGenerator(np.random.Generator):
    """Real draws; records (mean, cov, size, draws) of each multivariate_normal call and every
    other sampling call's name."""

    def __new__(cls, seed=0, bit_generator=None):
        bg = bit_generator if bit_generator is not None else np.random.PCG64(np.random.SeedSequence(seed))
        return super().__new__(cls, bg)

    def __init__(self, seed=0, bit_generator=None):
        bg = bit_generator if bit_generator is not None else np.random.PCG64(np.random.SeedSequence(seed))
        super().__init__(bg)
        self.log = []

    def uniform(self, low=0.0, high=1.0, size=None):
        out = super().uniform(low, high, size)
        self.log.append(("uniform", size, np.array(out)))
        return out

    def choice(self, a, size=None, replace=True, p=None, axis=0, shuffle=True):
        out = super().choice(a, size=size, replace=replace, p=p, axis=axis, shuffle=shuffle)
        self.log.append(("choice", a if np.isscalar(a) else "array", size, bool(replace), np.array(out)))
        return out

    def multivariate_normal(self, mean, cov, size=None, **kw):
        out = super().multivariate_normal(np.asarray(mean), np.asarray(cov), size=size, **kw)
        self.log.append(("mvn", np.array(mean, dtype=float), np.array(cov, dtype=float), size, np.array(out)))
        return out


# ---------------------------------------------------------------------------
class _StubData:
    def __init__(self, t_ref, rv_unit):
        self.t_ref = t_ref
        import astropy.units as u

        self.rv = np.zeros(1) * rv_unit


class _StubPrior:
    def __init__(self, poly_trend=1, n_offsets=0):
        self.poly_trend = poly_trend
        self.n_offsets = n_offsets


class StubHelper:
    """Duck-typed stand-in for CJokerHelper used where the property is about control flow.

    The identity of a library row is encoded in its P column (P = 1 + id days, exactly
    representable), the log-likelihood is looked up in `table` by id.  Every call is logged in
    seams.CALL_LOG.  Linear parameters are drawn from the generator handed in, with mean
    (id, 100+id) and unit covariance, so they are traceable to the row and to the stream.
    """

    def __init__(self, table, t_ref=None, rv_unit=None, fail_on=None):
        import astropy.units as u

        rv_unit = rv_unit if rv_unit is not None else u.km / u.s
        # table=None: likelihood is a fixed deterministic function of the row (for libraries whose rows are not id-coded)
        self.table = None if table is None else {int(k): float(v) for k, v in dict(table).items()}
        self.packed_order = ["P", "e", "omega", "M0", "s"]
        self.internal_units = {
            "P": u.day, "e": u.one, "omega": u.radian, "M0": u.radian,
            "s": rv_unit, "K": rv_unit, "v0": rv_unit,
        }
        self.data = _StubData(t_ref, rv_unit)
        self.prior = _StubPrior(1, 0)
        self.fail_on = fail_on  # optional (kind, call_number) -> raise

    @staticmethod
    def row_id(P):
        return int(round(float(P) - 1.0))

    def _ll(self, row, i):
        if self.table is not None:
            return self.table[i]
        return -float((row[0] * 1.37 + row[1] * 3.1 + row[2] * 0.7 + row[3] * 0.3) % 3.0)

    def batch_marginal_ln_likelihood(self, chunk):
        chunk = np.asarray(chunk)
        assert chunk.ndim == 2 and chunk.shape[1] == 5, chunk.shape
        assert chunk.dtype == np.float64
        ids = [self.row_id(r[0]) for r in chunk]
        CALL_LOG.append(("ll", ids, [tuple(float(x) for x in r) for r in chunk]))
        if self.fail_on is not None:
            self.fail_on("ll", ids)
        return np.array([self._ll(r, i) for r, i in zip(chunk, ids)], dtype=float)

    def batch_get_posterior_samples(self, chunk, n_linear, rng):
        chunk = np.asarray(chunk)
        assert chunk.ndim == 2 and chunk.shape[1] == 5, chunk.shape
        ids = [self.row_id(r[0]) for r in chunk]
        CALL_LOG.append(("post", ids, int(n_linear), id(rng)))
        if self.fail_on is not None:
            self.fail_on("post", ids)
        out = np.zeros((len(ids) * n_linear, 7))
        ll = np.zeros(len(ids) * n_linear)
        k = 0
        for r, i in zip(chunk, ids):
            lin = rng.multivariate_normal(np.array([float(i), 100.0 + i]), np.eye(2), size=n_linear)
            for j in range(n_linear):
                out[k, :5] = r
                out[k, 5:] = lin[j]
                # the likelihood the POSTERIOR-DRAW kernel reports need not be the marginal likelihood of the row (the real kernel
                # uses another K variance there when the cap binds): the stub makes it visibly different, so a sampler that
                # reports this number instead of the marginal one is noticed
                ll[k] = self._ll(r, i) - 0.4375
                k += 1
        return out, ll


def make_stub_joker(table, rng, pool=None, t_ref=None, tempfile_path=None, prior=None, fail_on=None):
    """A TheJoker whose only replaced part is the numeric kernel."""
    import thejoker as tj

    class StubJoker(tj.TheJoker):
        def _make_joker_helper(self, data):
            return StubHelper(table, t_ref=t_ref, fail_on=fail_on)

    return StubJoker(prior if prior is not None else get_dummy_prior(), pool=pool, rng=rng, tempfile_path=tempfile_path)


_DUMMY_PRIOR = None


def get_dummy_prior():
    global _DUMMY_PRIOR
    if _DUMMY_PRIOR is None:
        import astropy.units as u
        import pymc as pm
        import thejoker as tj

        with pm.Model():
            _DUMMY_PRIOR = tj.JokerPrior.default(
                P_min=1 * u.day, P_max=100 * u.day, sigma_K0=30 * u.km / u.s, sigma_v=100 * u.km / u.s
            )
    return _DUMMY_PRIOR


def stub_library(n, ln_prior=None, extra_units=None, dtype=None):
    """JokerSamples library with row id i at P = 1+i days; other nonlinear columns are
    distinct, exactly representable tags.  dtype: store the columns in that precision (e.g. float32: all tags stay exact
    for n < 2**17)."""
    import astropy.units as u
    import thejoker as tj

    s = tj.JokerSamples()
    ids = np.arange(n, dtype=float)
    dt = np.dtype(dtype) if dtype is not None else np.dtype(float)
    s["P"] = u.Quantity((1.0 + ids).astype(dt), u.day, dtype=dt)
    s["e"] = u.Quantity(((ids + 1) / 64.0).astype(dt), u.one, dtype=dt)
    s["omega"] = u.Quantity(((ids + 1) / 8.0).astype(dt), u.rad, dtype=dt)
    s["M0"] = u.Quantity(((ids + 1) / 4.0).astype(dt), u.rad, dtype=dt)
    s["s"] = u.Quantity(((ids + 1) / 2.0).astype(dt), u.km / u.s, dtype=dt)
    if ln_prior is not None:
        s["ln_prior"] = np.asarray(ln_prior, dtype=float)
    return s


# ---------------------------------------------------------------------------
class ModelPool:
    """In-process model of multiprocess.pool.Pool.map as schwimmbad.MultiPool exposes it.

    The task list is split into contiguous chunks of `chunksize` tasks; chunks are executed in
    the order given by `order` (a permutation index chosen by the explorer); each chunk is
    dill-round-tripped (func, tasks) -> worker, tasks of one chunk run sequentially on the
    *same* unpickled objects (exactly what a worker process does), results are
    dill-round-tripped back and returned in task order.  Workers share no memory, so
    (chunksize, order) is the whole schedule space thejoker can observe.
    """

    def __init__(self, size=2, chunksize=None, order=None, chooser=None, roundtrip=True):
        self.size = size
        self.chunksize = chunksize
        self.order = order
        self.chooser = chooser
        self.roundtrip = roundtrip
        self.maps = []  # log of (n_tasks, chunksize, order)
        self.closed = False

    def map(self, func, tasks, callback=None):
        import dill

        if self.closed:
            raise ValueError("Pool not running")  # what multiprocess.pool.Pool.map does after close()
        tasks = list(tasks)
        n = len(tasks)
        if n == 0:
            return []
        if self.chunksize is not None:
            cs = self.chunksize
        elif self.chooser is not None:
            cs = 1 + self.chooser.choose(n, "chunksize")
        else:
            # multiprocessing's default: ceil(n / (4*size))
            cs, extra = divmod(n, 4 * self.size)
            cs += 1 if extra else 0
        cs = max(1, min(cs, n))
        chunk_list = [list(range(i, min(i + cs, n))) for i in range(0, n, cs)]
        nch = len(chunk_list)
        if self.order is not None:
            perm = list(self.order(nch)) if callable(self.order) else list(self.order)[:nch]
        elif self.chooser is not None and nch > 1:
            # Lehmer-coded permutation, one choice point per position
            remaining = list(range(nch))
            perm = []
            for pos in range(nch - 1):
                k = self.chooser.choose(len(remaining), "chunk-order")
                perm.append(remaining.pop(k))
            perm.append(remaining[0])
        else:
            perm = list(range(nch))
        assert sorted(perm) == list(range(nch)), perm
        self.maps.append((n, cs, tuple(perm)))
        results = [None] * n
        for ci in perm:
            idxs = chunk_list[ci]
            if self.roundtrip:
                f, tk = dill.loads(dill.dumps((func, [tasks[i] for i in idxs])))
            else:
                f, tk = func, [tasks[i] for i in idxs]
            res = [f(t) for t in tk]
            if self.roundtrip:
                res = dill.loads(dill.dumps(res))
            for i, r in zip(idxs, res):
                results[i] = r
        if callback is not None:
            for r in results:
                callback(r)
        return results

    def close(self):
        self.closed = True

    def __enter__(self):
        return self

    def __exit__(self, *a):
        self.close()


# ---------------------------------------------------------------------------
class Chooser:
    """Answers choice points from a prefix, then 0 (the default environment)."""

    def __init__(self, prefix=()):
        self.prefix = list(prefix)
        self.choices = []
        self.points = []

    def choose(self, n, label=None):
        i = len(self.choices)
        c = self.prefix[i] if i < len(self.prefix) else 0
        if not (0 <= c < n):
            raise HarnessDivergence(f"choice {i} = {c} out of range {n} at {label}")
        self.choices.append(c)
        self.points.append((n, label))
        return c


def explore(run, bound=None, max_execs=None):
    """E2: stateless DFS over choice sequences with an (optional) deviation bound.

    `run(chooser)` executes the real code once on fresh objects.  Yields (chooser, result).
    Every execution's choice list is unique (each explored prefix ends in a non-default answer).
    """
    stack = [[]]
    n = 0
    while stack:
        prefix = stack.pop()
        ch = Chooser(prefix)
        res = run(ch)
        if len(ch.choices) < len(prefix):
            raise HarnessDivergence("execution consumed fewer choices than its prefix")
        n += 1
        yield ch, res
        if max_execs is not None and n >= max_execs:
            yield None, ("CAP", len(stack))
            return
        for i in range(len(ch.points) - 1, len(prefix) - 1, -1):
            dev = sum(1 for c in ch.choices[:i] if c != 0)
            if bound is not None and dev + 1 > bound:
                continue
            for alt in range(ch.points[i][0] - 1, 0, -1):
                stack.append(ch.choices[:i] + [alt])


def nextafter_down(x):
    return float(np.nextafter(x, -np.inf))


def nextafter_up(x):
    return float(np.nextafter(x, np.inf))


def fresh_dir(tag):
    base = os.environ.get("VERIF_SCRATCH") or os.path.join(os.path.dirname(os.path.dirname(os.path.abspath(__file__))), ".cache", "tmp-%d" % os.getpid())
    d = os.path.join(base, "%s-%d" % (tag, os.getpid()))
    os.makedirs(d, exist_ok=True)
    return d


# ---------------------------------------------------------------------------
class FaultInjector:
    """sys.monitoring CALL events restricted to thejoker's own code objects.

    An injection point is (file, function, bytecode offset, occurrence number).  In 'count' mode the
    sequence of points of an execution is recorded; in 'inject' mode the exception is raised from the
    callback at the chosen point, which propagates into the monitored frame exactly as if the callee
    had raised.
    """

    TOOL = 2  # sys.monitoring.PROFILER_ID

    def __init__(self, root):
        import sys

        self.mon = sys.monitoring
        self.root = os.path.realpath(root)
        self.codes = None
        self.active = False
        self.mode = None
        self.points = []
        self.occ = {}
        self.target = None
        self.exc = None
        self.fired = None
        self.skip = ()

    def _collect(self):
        import sys
        import types

        seen = set()
        out = []

        def walk(code):
            if id(code) in seen or not os.path.realpath(code.co_filename).startswith(self.root):
                return
            seen.add(id(code))
            out.append(code)
            for c in code.co_consts:
                if isinstance(c, types.CodeType):
                    walk(c)

        for name, mod in list(sys.modules.items()):
            f = getattr(mod, "__file__", None)
            if not f or not os.path.realpath(f).startswith(self.root) or not f.endswith(".py"):
                continue
            if os.sep + "tests" + os.sep in f:
                continue
            for obj in list(vars(mod).values()):
                fn = getattr(obj, "__func__", obj)
                code = getattr(fn, "__code__", None)
                if isinstance(code, types.CodeType) and os.path.realpath(code.co_filename).startswith(self.root):
                    walk(code)
                w = getattr(obj, "__wrapped__", None)
                if w is not None and hasattr(w, "__code__"):
                    walk(w.__code__)
                if isinstance(obj, type):
                    for m in list(vars(obj).values()):
                        fn = getattr(m, "__func__", m)
                        if isinstance(fn, property):
                            for g in (fn.fget, fn.fset):
                                if g is not None and hasattr(g, "__code__"):
                                    walk(g.__code__)
                        code = getattr(fn, "__code__", None)
                        if isinstance(code, types.CodeType) and os.path.realpath(code.co_filename).startswith(self.root):
                            walk(code)
                # closures (e.g. the wrapper returned by tempfile_decorator)
                clo = getattr(fn, "__closure__", None) or ()
                for cell in clo:
                    try:
                        v = cell.cell_contents
                    except ValueError:
                        continue
                    c2 = getattr(v, "__code__", None)
                    if isinstance(c2, types.CodeType) and os.path.realpath(c2.co_filename).startswith(self.root):
                        walk(c2)
        return out

    def install(self):
        mon = self.mon
        if mon.get_tool(self.TOOL) is None:
            mon.use_tool_id(self.TOOL, "verif-fault-injector")
        self.codes = self._collect()
        mon.register_callback(self.TOOL, mon.events.CALL, self._cb)
        for c in self.codes:
            mon.set_local_events(self.TOOL, c, mon.events.CALL)

    def uninstall(self):
        mon = self.mon
        for c in self.codes or []:
            mon.set_local_events(self.TOOL, c, 0)
        mon.register_callback(self.TOOL, mon.events.CALL, None)
        try:
            mon.free_tool_id(self.TOOL)
        except Exception:
            pass

    def _cb(self, code, offset, callable_, arg0):
        if not self.active:
            return None
        key0 = (os.path.basename(code.co_filename), code.co_qualname, offset)
        n = self.occ.get(key0, 0)
        self.occ[key0] = n + 1
        key = key0 + (n,)
        name = getattr(callable_, "__qualname__", None) or getattr(callable_, "__name__", None) or type(callable_).__name__
        if self.mode == "count":
            self.points.append(key + (str(name),))
            return None
        if self.target is not None and key == self.target and self.fired is None:
            self.fired = key + (str(name),)
            self.active = False  # single fault
            raise self.exc
        return None

    def count(self, fn):
        self.mode, self.points, self.occ, self.target, self.fired = "count", [], {}, None, None
        self.active = True
        try:
            res = fn()
        finally:
            self.active = False
        return res, list(self.points)

    def inject(self, fn, point, exc):
        self.mode, self.points, self.occ, self.fired = "inject", [], {}, None
        self.target, self.exc = tuple(point[:4]), exc
        self.active = True
        try:
            return fn()
        finally:
            self.active = False
