"""A prelude of *unrelated* public API calls run once in every worker process before a check's cases.

Every property is quantified over call histories in the weak sense that a user's earlier, unrelated calls in the same
process must not change what thejoker does later (process-wide state: module-level defaults, astropy's globally enabled
equivalencies, caches keyed on names).  Running this battery first gives every check such a history for free; on a correct
tree it changes nothing.
"""
import os

_DONE = False


def prelude():
    global _DONE
    if _DONE or os.environ.get("VERIF_NO_PRELUDE"):
        return
    _DONE = True
    try:
        import warnings

        warnings.filterwarnings("ignore")
        import astropy.units as u
        import numpy as np
        from astropy.time import Time
        import thejoker as tj

        t = Time(56000.0 + np.array([3.0, 1.0, 7.5, 20.25]), format="mjd", scale="tcb")
        d = tj.RVData(t, [1.0, -2.0, 3.5, 0.25] * u.km / u.s, [0.3, 0.4, 0.5, 0.2] * u.km / u.s)
        d.phase(2.5 * u.day)
        d.copy()
        d[1:3]
        s = tj.JokerSamples(t_ref=d.t_ref, poly_trend=1, n_offsets=0)
        s["P"] = ([2.5, 11.0] * u.day).to(u.yr)
        s["e"] = [0.1, 0.4]
        s["omega"] = [20.0, 300.0] * u.deg
        s["M0"] = [1.0, 5.0] * u.rad
        s["s"] = [0.0, 100.0] * u.m / u.s
        s["K"] = [-3.0, 2.0] * u.km / u.s
        s["v0"] = [1.0, 2.0] * u.km / u.s
        s.get_t0()
        s.get_time_with_phase(90 * u.deg)
        s.pack(units={"P": u.yr, "omega": u.deg, "M0": u.deg})
        s.pack(units={"P": u.hour, "K": u.m / u.s}, nonlinear_only=False)
        s.pack()
        s.get_orbit(0)
        s.copy().wrap_K()
        s.mean()
        s.median_period()
        s.ln_unmarginalized_likelihood(d)
        from thejoker import samples_analysis as sa

        sa.max_phase_gap(s[0], d)
        sa.phase_coverage(s[0], d)
        sa.periods_spanned(s[0], d)
        try:
            import matplotlib

            matplotlib.use("Agg")
            import matplotlib.pyplot as plt
            from thejoker.plot import plot_phase_fold, plot_rv_curves

            fig, ax = plt.subplots()
            plot_phase_fold(s[0], data=d, ax=ax)
            plot_rv_curves(s, data=d, ax=ax)
            plt.close(fig)
        except Exception:
            pass
        # a sample file written, extended and read back under a throw-away name
        import shutil
        import tempfile

        tmp = tempfile.mkdtemp(prefix="verif-prelude-")
        try:
            fn = os.path.join(tmp, "prelude.hdf5")
            s.write(fn)
            s.write(fn, append=True)
            tj.JokerSamples.read(fn)
            from thejoker.utils import read_batch

            read_batch(fn, ["P", "e", "omega", "M0", "s"], slice(0, 3), units={"P": u.hour})
            # a complete small run of the sampler with another prior (period prior in hours, two surveys, quadratic trend)
            import pymc as pm
            import thejoker.units as xu

            with pm.Model():
                pr = tj.JokerPrior.default(P_min=30 * u.hour, P_max=3000 * u.hour, sigma_K0=20 * u.km / u.s,
                                           sigma_v=[50 * u.km / u.s, 1 * u.km / u.s / u.day], poly_trend=2,
                                           v0_offsets=[xu.with_unit(pm.Normal("dv0_1", 0, 4.0), u.km / u.s)])
            ps = pr.sample(size=16, rng=np.random.default_rng(5), return_logprobs=True)
            d2 = tj.RVData(Time(56003.0 + np.array([0.5, 9.0, 4.0]), format="mjd", scale="tcb"), [0.5, 1.5, -1.0] * u.km / u.s, [0.5, 0.5, 0.6] * u.km / u.s)
            jk = tj.TheJoker(pr, rng=np.random.default_rng(6), tempfile_path=tmp)
            jk.marginal_ln_likelihood({"b": d, "a": d2}, ps)
            jk.rejection_sample([d, d2], ps, return_logprobs=True)
            jk.iterative_rejection_sample([d, d2], ps, n_requested_samples=2, init_batch_size=4)
        finally:
            shutil.rmtree(tmp, ignore_errors=True)
        from thejoker.utils import batch_tasks

        batch_tasks(10, 3, start_idx=5)
        batch_tasks(10, 3, arr=np.arange(20), start_idx=5)
    except Exception:
        # the prelude itself must never decide anything
        if os.environ.get("VERIF_PRELUDE_DEBUG"):
            import traceback

            traceback.print_exc()
