"""Kernel rebuild + import binding (DESIGN §3.1).

`.py` files of thejoker are imported in place from /repo, so they are always the
working tree.  The extension module is rebuilt from the *working tree's*
generated C (Cython is not available in the image, see DESIGN §2) into
/verif/.cache/kernel/<sha>/ and pre-loaded as ``thejoker.src.fast_likelihood``
before ``thejoker`` is imported, so a stale in-tree .so is never what runs.
"""
import fcntl
import hashlib
import importlib.machinery
import importlib.util
import os
import re
import subprocess
import sys
import sysconfig
import warnings

REPO = os.environ.get("VERIF_REPO", "/repo")
VERIF = os.path.dirname(os.path.dirname(os.path.abspath(__file__)))
CACHE = os.path.join(VERIF, ".cache")

NOTES = []  # assumptions / notes to be copied into evidence
_BOUND = False


def _sha(*paths):
    h = hashlib.sha256()
    for p in paths:
        with open(p, "rb") as f:
            h.update(f.read())
    return h.hexdigest()[:20]


def _pyx_vs_c(pyx, c):
    """Compare the code lines of the .pyx with the source lines Cython embedded
    in the generated C as comments (`/* "thejoker/src/fast_likelihood.pyx":N` blocks).
    Returns the number of pyx code lines that are embedded-but-different."""
    try:
        pyx_lines = open(pyx, encoding="utf-8").read().split("\n")
        ctext = open(c, encoding="utf-8", errors="replace").read()
    except OSError:
        return None
    embedded = {}
    # blocks look like:  /* "thejoker/src/fast_likelihood.pyx":123\n * prev\n * cur             # <<<<<<<<<<<<<<\n
    for m in re.finditer(
        r'/\* "[^"\n]*fast_likelihood\.pyx":(\d+)\n((?: \*[^\n]*\n){1,8})', ctext
    ):
        ln = int(m.group(1))
        for row in m.group(2).split("\n"):
            if "# <<<<<<<<<<<<<<" in row:
                src = row[3:].split("# <<<<<<<<<<<<<<")[0].rstrip()
                embedded[ln] = src
    differ = 0
    for ln, src in embedded.items():
        if ln - 1 < len(pyx_lines):
            if pyx_lines[ln - 1].strip() != src.strip():
                differ += 1
        else:
            differ += 1
    return differ, len(embedded)


def kernel_so():
    """Compile (or fetch from cache) the kernel from the working tree's sources."""
    import numpy
    import twobody

    c_src = os.path.join(REPO, "thejoker", "src", "fast_likelihood.c")
    pyx = os.path.join(REPO, "thejoker", "src", "fast_likelihood.pyx")
    tb_dir = os.path.dirname(twobody.__file__)
    tb_c = os.path.join(tb_dir, "src", "twobody.c")
    if not os.path.exists(c_src):
        NOTES.append(
            "kernel: no generated fast_likelihood.c in the tree and no Cython in the image; "
            "explored the in-tree compiled extension as it stands"
        )
        return None
    try:
        import Cython  # noqa: F401

        have_cython = True
    except Exception:
        have_cython = False
    if have_cython:
        # cythonise the current .pyx into the cache and compile that
        sha = _sha(pyx, tb_c)
        out = os.path.join(CACHE, "kernel", "pyx-" + sha)
        os.makedirs(out, exist_ok=True)
        gen_c = os.path.join(out, "fast_likelihood.c")
        if not os.path.exists(gen_c):
            subprocess.check_call(
                [sys.executable, "-m", "cython", "-3", "-I", tb_dir, pyx, "-o", gen_c],
                cwd=REPO,
            )
        c_src = gen_c
    else:
        d = _pyx_vs_c(pyx, c_src)
        if d is not None and d[0] > 0:
            msg = (
                f"NOTE kernel-source-newer-than-generated-C: {d[0]} of {d[1]} embedded .pyx code "
                "lines differ from the generated C; Cython is not installed, so the compiled C "
                "(not the edited .pyx) is what was explored"
            )
            print(msg)
            NOTES.append(msg)
    sha = _sha(c_src, tb_c)
    out = os.path.join(CACHE, "kernel", sha)
    ext = sysconfig.get_config_var("EXT_SUFFIX")
    so = os.path.join(out, "fast_likelihood" + ext)
    if os.path.exists(so):
        return so
    os.makedirs(out, exist_ok=True)
    lock = open(os.path.join(CACHE, "kernel", ".lock"), "w")
    fcntl.flock(lock, fcntl.LOCK_EX)
    try:
        if not os.path.exists(so):
            tmp = so + ".tmp%d" % os.getpid()
            cmd = [
                "gcc", "-shared", "-fPIC", "-O2", "--std=gnu99", "-w",
                "-I" + sysconfig.get_paths()["include"],
                "-I" + numpy.get_include(),
                "-I" + tb_dir,
                c_src, tb_c, "-o", tmp, "-lm",
            ]
            subprocess.check_call(cmd)
            os.replace(tmp, so)
    finally:
        fcntl.flock(lock, fcntl.LOCK_UN)
        lock.close()
    return so


def bind():
    """Make `import thejoker` use /repo's .py files and the freshly built kernel."""
    global _BOUND
    if _BOUND:
        return
    warnings.filterwarnings("ignore")
    os.environ.setdefault("PYTHONHASHSEED", "0")
    if REPO not in sys.path:
        sys.path.insert(0, REPO)
    import logging

    so = kernel_so()
    if so is not None:
        name = "thejoker.src.fast_likelihood"
        import importlib.abc

        class _KernelFinder(importlib.abc.MetaPathFinder):
            """Serve the freshly built kernel at the point where thejoker's own import chain asks for it."""

            def find_spec(self, fullname, path, target=None):
                if fullname == name:
                    loader = importlib.machinery.ExtensionFileLoader(fullname, so)
                    return importlib.util.spec_from_file_location(fullname, so, loader=loader)
                return None

        assert name not in sys.modules, "thejoker's kernel was imported before the binding"
        sys.meta_path.insert(0, _KernelFinder())
    import thejoker  # noqa: F401
    import thejoker.src.fast_likelihood as _k
    import thejoker.thejoker as _t

    if so is not None:
        assert os.path.realpath(_k.__file__) == os.path.realpath(so), (_k.__file__, so)
    assert _t.CJokerHelper is _k.CJokerHelper
    assert os.path.realpath(os.path.dirname(thejoker.__file__)) == os.path.realpath(
        os.path.join(REPO, "thejoker")
    ), "thejoker was not imported from the working tree"
    logging.getLogger("thejoker").setLevel(logging.ERROR)
    for n in ("pymc", "pytensor", "numba", "h5py", "tables"):
        logging.getLogger(n).setLevel(logging.ERROR)
    NOTES.append("kernel: built from the working tree's generated C (%s)" % (so or "in-tree .so"))
    _BOUND = True
