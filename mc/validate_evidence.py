"""Run under python3-vt (has jsonschema): validate evidence / manifest files against the given schemas."""
import json
import sys

import jsonschema

def main():
    schema = json.load(open(sys.argv[1]))
    rc = 0
    for p in sys.argv[2:]:
        try:
            jsonschema.validate(json.load(open(p)), schema)
        except Exception as e:  # noqa
            print("INVALID", p, str(e)[:400])
            rc = 1
    return rc

if __name__ == "__main__":
    sys.exit(main())
