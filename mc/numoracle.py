"""Conditioning-aware oracle for kernel values, with attribution to the open kernel findings K1-K5 (DESIGN §4 C01, §6)."""
import itertools

import numpy as np

E_EXACT_MAX = 0.99  # beyond: finiteness only (the property's own restriction)
RTOL = 1e-7


def triggered(problem, theta_row):
    """which kernel findings have their trigger satisfied on this (problem, row) - for the marginal likelihood"""
    pr = problem.prior
    tr = []
    if theta_row[4] > 0:
        tr.append("K1")
    if pr["kind"] == "default" and abs(pr.get("P_prior_unit_in_days", 1.0) - 1.0) > 1e-12:
        tr.append("K3")
    if pr["kind"] == "custom" and problem.n_offsets >= 1:
        tr.append("K4")
    return tr


def band1(ref):
    return RTOL * (1.0 + np.abs(ref))


class LnLOracle:
    """Evaluates the reference (and, lazily, twins and instability estimates) for a theta grid of one problem."""

    def __init__(self, problem, theta):
        self.p = problem
        self.theta = np.atleast_2d(np.asarray(theta, dtype=float))
        self._ref = {}
        self._inst = {}

    def ref(self, twins=frozenset()):
        twins = frozenset(twins)
        if twins not in self._ref:
            ld = self.p.lnL(self.theta, twins=twins, dtype=np.longdouble)
            f64 = self.p.lnL(self.theta, twins=twins, dtype=np.float64)
            ldf = np.asarray(ld, dtype=float)
            trust = np.abs(ldf - f64) <= 1e-6 * (1 + np.abs(ldf))
            self._ref[twins] = (ldf, trust)
        return self._ref[twins]

    def instability(self, idx, twins=frozenset()):
        """largest deviation from the exact value among six float64 evaluations of the kernel's own algebraic route
        (unperturbed + five fixed +-2ulp input perturbations), for the rows idx"""
        twins = frozenset(twins)
        out = np.zeros(len(idx))
        ref = self.ref(twins)[0][idx]
        th = self.theta[idx]
        for k in range(6):
            with np.errstate(all="ignore"):
                try:
                    v = self.p.kernel_route(th, twins=twins, perturb=k)
                except Exception:
                    v = np.full(len(idx), np.inf)
            d = np.abs(v - ref)
            d = np.where(np.isfinite(d), d, np.inf)
            out = np.maximum(out, d)
        return out

    def conditioning(self, i, twin_sets):
        """largest 2-norm condition number of B and of A^-1 for row i over the given twin semantics"""
        th = self.theta[i : i + 1]
        worst = 0.0
        for tw in twin_sets:
            M = self.p.M(th)[0]
            mu, Lam = self.p.mu_Lam(th, tw)
            var = self.p.var(th, tw)[0]
            with np.errstate(all="ignore"):
                Ainv = np.diag(1.0 / Lam[0]) + (M.T / var) @ M
                B = np.diag(var) + (M * Lam[0]) @ M.T
                for X in (Ainv, B):
                    c = np.linalg.cond(X)
                    if not np.isfinite(c):
                        c = np.inf
                    worst = max(worst, c)
        return worst

    def forward_bound(self, rows, tw):
        """standard forward-error bound of the kernel's route: it inverts A^-1 by LU (relative error ~ eps*cond(A^-1)) and
        forms chi^2 as the difference T1 - T2 of two large terms; bound = 10 * eps * cond(A^-1) * (|T1| + |T2|) (+ log-det term).
        Vectorised over the rows."""
        rows = list(rows)
        if not rows:
            return np.zeros(0)
        out = np.full(len(rows), np.inf)
        CH = 4096
        for c0 in range(0, len(rows), CH):
            idx = rows[c0 : c0 + CH]
            th = self.theta[idx]
            M = self.p.M(th)  # (T, N, L)
            mu, Lam = self.p.mu_Lam(th, tw)
            var = self.p.var(th, tw)
            with np.errstate(all="ignore"):
                Ainv = np.einsum("tnl,tn,tnk->tlk", M, 1.0 / var, M)
                L = M.shape[2]
                Ainv[:, np.arange(L), np.arange(L)] += 1.0 / Lam
                B = np.einsum("tnl,tl,tml->tnm", M, Lam, M)
                N = M.shape[1]
                B[:, np.arange(N), np.arange(N)] += var
                r = np.einsum("tnl,tl->tn", M, mu) - self.p.y[None, :]
                T1 = np.sum(r * r / var, axis=1)
                w = np.einsum("tnl,tn->tl", M, r / var)
                good = np.all(np.isfinite(Ainv), axis=(1, 2)) & np.all(np.isfinite(B), axis=(1, 2))
                res = np.full(len(idx), np.inf)
                if np.any(good):
                    try:
                        cA = np.linalg.cond(Ainv[good])
                        cB = np.linalg.cond(B[good])
                        x = np.linalg.solve(Ainv[good], w[good][..., None])[..., 0]
                        T2 = np.sum(w[good] * x, axis=1)
                        res[good] = 10 * 2.2e-16 * (cA * (np.abs(T1[good]) + np.abs(T2)) + cB * N)
                    except np.linalg.LinAlgError:
                        # fall back to row-by-row for this chunk
                        for k in np.where(good)[0]:
                            try:
                                cA = np.linalg.cond(Ainv[k]); cB = np.linalg.cond(B[k])
                                T2 = float(w[k] @ np.linalg.solve(Ainv[k], w[k]))
                                res[k] = 10 * 2.2e-16 * (cA * (abs(T1[k]) + abs(T2)) + cB * N)
                            except np.linalg.LinAlgError:
                                res[k] = np.inf
                res = np.where(np.isfinite(res), res, np.inf)
            out[c0 : c0 + len(idx)] = res
        return out

    def classify(self, impl):
        """Returns list of per-row verdicts: ('pass',), ('finite-only',), ('untrusted',), ('known', (ids...)),
        ('violation', message, expected, observed)."""
        impl = np.asarray(impl, dtype=float)
        T = len(self.theta)
        verdicts = [None] * T
        ref0, trust0 = self.ref()
        hi_e = self.theta[:, 1] > E_EXACT_MAX
        for i in range(T):
            if not np.isfinite(impl[i]):
                # non-finite output on finite valid input: attributable only to K4/K5-type findings, else violation
                verdicts[i] = ("nonfinite",)
            elif hi_e[i]:
                verdicts[i] = ("finite-only",)
            elif not trust0[i]:
                verdicts[i] = ("untrusted",)
            elif abs(impl[i] - ref0[i]) <= band1(ref0[i]):
                verdicts[i] = ("pass",)
        todo = [i for i in range(T) if verdicts[i] is None or verdicts[i] == ("nonfinite",)]
        if not todo:
            return verdicts
        # twins: minimal subset of triggered findings that explains the value
        trig = {i: triggered(self.p, self.theta[i]) for i in todo}
        for i in list(todo):
            if verdicts[i] == ("nonfinite",):
                # finding K6: the kernel returns +-inf when LAPACK flags a factorisation as singular; attributed only when
                # B or Ainv really is numerically singular in double precision on this input (cond > 1e14), under the
                # correct semantics or under a triggered twin
                conds = self.conditioning(i, [frozenset()] + [frozenset(s) for r in range(1, len(trig[i]) + 1)
                                                           for s in itertools.combinations(trig[i], r)])
                if conds > 1e14 and np.isinf(impl[i]):
                    verdicts[i] = ("known", ("K6",))
                else:
                    verdicts[i] = ("violation", "non-finite marginal ln-likelihood for a finite valid input "
                                   f"(largest condition number of B / A^-1: {conds:.2e})", float(ref0[i]), float(impl[i]))
                todo.remove(i)
        subsets_needed = sorted({tuple(s) for i in todo for r in range(1, len(trig[i]) + 1) for s in itertools.combinations(trig[i], r)},
                                key=lambda s: (len(s), s))
        remaining = set(todo)
        # the correct semantics inside the conditioning bound (K5) take precedence over a twin: a row on which a finding's
        # effect is below the numerical noise floor says nothing about that finding
        rows0 = [i for i in sorted(remaining) if trust0[i]]
        if rows0:
            fb = self.forward_bound(rows0, frozenset())
            for k, i in enumerate(rows0):
                if np.isfinite(fb[k]) and fb[k] > 0 and abs(impl[i] - ref0[i]) <= fb[k] + band1(ref0[i]):
                    verdicts[i] = ("known", ("K5",))
                    remaining.discard(i)
        for sub in subsets_needed:
            if not remaining:
                break
            rows = [i for i in remaining if set(sub) <= set(trig[i])]
            if not rows:
                continue
            rt, tt = self.ref(frozenset(sub))
            for i in rows:
                if tt[i] and abs(impl[i] - rt[i]) <= band1(rt[i]):
                    verdicts[i] = ("known", tuple(sub))
                    remaining.discard(i)
        # K5: conditioning band, against the correct reference and against every triggered twin combination; among the
        # semantics whose band contains the value, the one naming the fewest findings (then the closest) is chosen
        if remaining:
            rem = sorted(remaining)
            cands = [frozenset()] + [frozenset(s) for s in subsets_needed]
            best = {}
            for tw in cands:
                rows = [i for i in rem if set(tw) <= set(trig[i])]
                if not rows:
                    continue
                rt, tt = self.ref(tw)
                inst = np.maximum(1000.0 * self.instability(np.array(rows), tw), self.forward_bound(rows, tw))
                for k, i in enumerate(rows):
                    # under K4 the kernel divides by a zero prior variance (A^-1 has an infinite entry): when that makes the
                    # route's error bound unbounded, any value is attributable to K4 (+K5)
                    unbounded_k4 = ("K4" in tw) and not np.isfinite(inst[k])
                    dev = abs(impl[i] - rt[i])
                    if unbounded_k4 or (np.isfinite(inst[k]) and dev <= inst[k] + band1(rt[i]) and inst[k] > 0):
                        # fewest findings first (a finding whose effect is below the noise floor is not named), then closest
                        score = (len(tw), dev if np.isfinite(dev) else np.inf)
                        if i not in best or score < best[i][0]:
                            best[i] = (score, tuple(sorted(tw)) + ("K5",))
            for i, (_, ids) in best.items():
                verdicts[i] = ("known", ids)
                remaining.discard(i)
        for i in remaining:
            verdicts[i] = ("violation", "marginal ln-likelihood differs from the closed-form Gaussian marginal "
                           f"(triggered findings {trig[i]} do not explain it)", float(ref0[i]), float(impl[i]))
        return verdicts


# ---------------------------------------------------------------------------------------------
def triggered_post(problem, theta_row):
    tr = triggered(problem, theta_row)
    pr = problem.prior
    if pr["kind"] == "default":
        from .ref import marginal

        unc = marginal.var_K(theta_row[0], theta_row[1], pr["sigma_K0"], pr["P0"], pr["max_K"], cap=False)
        unc3 = marginal.var_K(theta_row[0], theta_row[1], pr["sigma_K0"], pr["P0"] / pr.get("P_prior_unit_in_days", 1.0), pr["max_K"], cap=False)
        if unc > pr["max_K"] ** 2 or unc3 > pr["max_K"] ** 2:
            tr.append("K2")
    return tr


class PostOracle:
    """Reference (a, A) of the conditional posterior with twin attribution."""

    def __init__(self, problem, theta):
        self.p = problem
        self.theta = np.atleast_2d(np.asarray(theta, dtype=float))
        self._ref = {}

    def ref(self, twins=frozenset()):
        twins = frozenset(twins)
        if twins not in self._ref:
            with np.errstate(all="ignore"):
                a, A, Ainv = self.p.posterior(self.theta, twins=twins)
                cond = np.array([np.linalg.cond(x) if np.all(np.isfinite(x)) else np.inf for x in Ainv])
            self._ref[twins] = (a, A, cond)
        return self._ref[twins]

    @staticmethod
    def close(a_i, A_i, a_r, A_r, cond):
        if not (np.all(np.isfinite(a_i)) and np.all(np.isfinite(A_i))):
            return False
        tol = 1e-7 + 100 * 2.2e-16 * cond
        sd = np.sqrt(np.abs(np.diag(A_r)))
        if np.any(np.abs(a_i - a_r) > tol * (np.abs(a_r) + sd) + 1e-300):
            return False
        if np.any(np.abs(A_i - A_r) > tol * np.sqrt(np.outer(np.abs(np.diag(A_r)), np.abs(np.diag(A_r)))) + 1e-300):
            return False
        return True

    def classify_row(self, i, mean, cov):
        mean, cov = np.asarray(mean, dtype=float), np.asarray(cov, dtype=float)
        a0, A0, c0 = self.ref()
        if c0[i] > 1e13:
            return ("untrusted",)
        if self.close(mean, cov, a0[i], A0[i], c0[i]):
            return ("pass",)
        trig = triggered_post(self.p, self.theta[i])
        if "K4" in trig and not (np.all(np.isfinite(mean)) and np.all(np.isfinite(cov))):
            return ("known", ("K4",))
        for r in range(1, len(trig) + 1):
            for sub in itertools.combinations(trig, r):
                if "K4" in sub:
                    continue
                a, A, c = self.ref(frozenset(sub))
                if self.close(mean, cov, a[i], A[i], c[i]):
                    return ("known", tuple(sub))
        return ("violation", f"(mean, cov) handed to the generator differ from the conditional posterior N(a, A) (triggered findings {trig} do not explain it)",
                (a0[i].tolist(), A0[i].tolist()), (mean.tolist(), cov.tolist()))
