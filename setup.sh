#!/bin/bash
# Offline setup: compile the kernel from /repo's generated C into /verif/.cache and import once.
cd "$(dirname "$0")"
export PYTHONDONTWRITEBYTECODE=1
/venv/bin/python -W ignore -c "import mc.build as b; b.bind(); print('kernel bound;', b.NOTES[-1])" 2>&1 | grep -v conda.cli
exit ${PIPESTATUS[0]}
