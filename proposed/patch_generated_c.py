"""Applies the hand-translation of proposed/kernel_fixes.pyx.diff (K1, K2, K4) to a *generated* fast_likelihood.c.

Cython is not available in this sandbox, so the .pyx patch cannot be compiled; this script edits the generated C of the
pinned tree in the same way (it is tied to that exact file: it checks the anchors it relies on).  Used only on a scratch
copy outside /repo to demonstrate that with the kernel repaired the checks report no K1/K2/K4 finding.
usage: patch_generated_c.py <fast_likelihood.c>
"""
import re
import sys

path = sys.argv[1]
lines = open(path, encoding="utf-8", errors="surrogateescape").read().split("\n")


def pyx_block_ranges(pyx_line):
    """[start, end) line ranges of the C generated for one .pyx source line (from its marker comment to the next marker)"""
    out = []
    marks = [i for i, l in enumerate(lines) if re.search(r'/\* "thejoker/src/fast_likelihood\.pyx":\d+$', l)]
    for k, i in enumerate(marks):
        if lines[i].rstrip().endswith('pyx":%d' % pyx_line):
            out.append((i, marks[k + 1] if k + 1 < len(marks) else len(lines)))
    return out


n_k1 = 0
# K1: the jitter-inflated inverse variances (s_ivar) instead of the raw ones in A^-1, B, Binv and the rhs of a
for pl in (274, 317, 333, 337, 339, 401):
    for a, b in pyx_block_ranges(pl):
        for i in range(a, b):
            if "__pyx_v_self->ivar" in lines[i]:
                lines[i] = lines[i].replace("__pyx_v_self->ivar", "__pyx_v_self->s_ivar")
                n_k1 += 1
assert n_k1 >= 24, n_k1

# K2: cap the K variance in the posterior-draw paths too (pyx lines 520 and 570)
n_k2 = 0
cap = ("{ double __mk = __pyx_v_self->max_K * __pyx_v_self->max_K; double *__l0 = (double *) __pyx_v_self->Lambda.data; "
       "if (__mk < __l0[0]) __l0[0] = __mk; } /* K2: same cap as in batch_marginal_ln_likelihood */")
for pl in (520, 570):
    for a, b in pyx_block_ranges(pl):
        for i in range(a, b):
            if "__pyx_v_self->Lambda.data) +" in lines[i] and lines[i].rstrip().endswith(";") and " = __pyx_t_" in lines[i]:
                lines[i] = lines[i] + "\n      " + cap
                n_k2 += 1
assert n_k2 == 2, n_k2

# K4: a custom K prior (i == 0) goes to slot 0, not to slot n_offsets
n_k4 = 0
for a, b in pyx_block_ranges(250):
    for i in range(a, b):
        if lines[i].strip() == "__pyx_v_j = __pyx_t_22;":
            lines[i] = lines[i] + "\n      if (__pyx_v_i == 0) __pyx_v_j = 0; /* K4 */"
            n_k4 += 1
assert n_k4 == 1, n_k4
open(path, "w", encoding="utf-8", errors="surrogateescape").write("\n".join(lines))
print("patched: K1 sites", n_k1, "K2 sites", n_k2, "K4 sites", n_k4)
