#!/bin/bash
# tools/seedtriage.sh <worktree> <k> [checks...]: preliminary run of the checks against the scratch worktree with the seed applied
# (VERIF_REPO=<worktree>; /repo untouched, so it may run while a sweep reads /repo). The recorded verdict still comes from seedverify.sh.
wt=$1; k=$2; shift 2
cd $wt && git checkout -q -- . && git apply seed/$k/patch.diff || { echo "PATCH DOES NOT APPLY"; exit 1; }
for c in "$@"; do
  r=$(cd ${VERIF_HOME:-/verif} && VERIF_REPO=$wt VERIF_EVIDENCE_DIR=/tmp/triage/evidence VERIF_REPLAY_DIR=/tmp/triage/replays ./check $c --tier quick 2>&1 | grep -E "VIOLATION|HARNESS|tier=" | head -2 | cut -c1-220)
  echo "--- $(basename $wt)/$k $c: $r"
done
cd $wt && git checkout -q -- .
