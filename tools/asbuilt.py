"""Print the as-built coverage table (markdown) from /verif/evidence/*.json."""
import glob, json
rows = []
for f in sorted(glob.glob('/verif/evidence/C*.json')):
    e = json.load(open(f)); c = e['coverage']
    b = c.get('bounds', {})
    bs = '; '.join(f"{k}={v}" for k, v in b.items())
    rows.append(f"| {e['property_id']} | {e['level']} | {e['tier']} | {c['evaluations']} | {c.get('distinct_outcomes','')} | {c['distinct_nontrivial']} | "
                f"{c.get('states','')}/{c.get('transitions','')} | {e['wall_s']} | {bs[:160]} |")
print("| id | level | tier | evaluations | distinct outcomes | distinct non-trivial | states/transitions | wall s | bounds |")
print("|---|---|---|---|---|---|---|---|---|")
print("\n".join(rows))
