#!/bin/bash
# tools/mkwt.sh <name>: scratch worktree of /repo HEAD under /tmp/wt/<name>, with the ignored build products copied in
set -e
d=/tmp/wt/$1
mkdir -p /tmp/wt
git -C /repo worktree add --detach -f "$d" HEAD >/dev/null 2>&1
cp /repo/thejoker/src/fast_likelihood*.so /repo/thejoker/src/fast_likelihood.c "$d/thejoker/src/" 
[ -f /repo/thejoker/_version.py ] && cp /repo/thejoker/_version.py "$d/thejoker/_version.py"
echo "$d"
