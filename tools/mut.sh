#!/bin/bash
# tools/mut.sh <file-in-repo> <python-regex-old> <new> <check ids...> : apply a one-line mutation, run checks (quick), revert
f=$1; old=$2; new=$3; shift 3
cd /repo && /venv/bin/python - "$f" "$old" "$new" <<'PY'
import sys,re
f,old,new=sys.argv[1:4]
s=open(f).read()
n=s.count(old)
if n==0: print("MUT: pattern not found"); sys.exit(3)
s=s.replace(old,new,1 if "--all" not in sys.argv else -1)
open(f,'w').write(s); print("MUT applied (occurrences:",n,")")
PY
[ $? -eq 0 ] || exit 3
for c in "$@"; do (cd /verif && ./check $c --tier quick 2>&1 | grep -E "VIOLATION|HARNESS|tier=" | cut -c1-160 | head -3); done
cd /repo && git checkout -- . 
