#!/bin/bash
# tools/seedpre.sh <worktree> <k>: phase A of seedverify (inside the scratch worktree only, so several can run in parallel):
# demo passes clean, fails with the patch; the 50 stable tests pass with the patch. Result cached in <worktree>/seed/<k>/pre.txt
wt=$1; k=$2; sd=$wt/seed/$k
cd $wt && git checkout -q -- .
/venv/bin/python $sd/demo.py >/dev/null 2>&1; clean_rc=$?
git apply $sd/patch.diff || { echo "PATCH DOES NOT APPLY in worktree"; exit 1; }
/venv/bin/python $sd/demo.py >$sd/demo_with_patch.log 2>&1; patched_rc=$?
base=$(/venv/bin/python /tmp/wt/check_baseline.py $wt 2>&1 | tail -1)
git checkout -q -- .
printf '%s\n%s\n%s\n' "$clean_rc" "$patched_rc" "$base" > $sd/pre.txt
echo "$(basename $wt)/$k demo clean rc=$clean_rc patched rc=$patched_rc baseline: $base"
