#!/bin/bash
# tools/coverage_all.sh [tier]: diagnostic only — line coverage of /repo/thejoker/*.py under all registered checks
# (scratch data under /tmp/cov, removed at the end; the report goes to stdout)
tier=${1:-quick}
rm -rf /tmp/cov; mkdir -p /tmp/cov
cat > /tmp/cov/rc <<EOR
[run]
concurrency = multiprocessing
parallel = True
source = /repo/thejoker
data_file = /tmp/cov/data
omit = */tests/*
EOR
cd /verif
export PYTHONHASHSEED=0 PYTHONDONTWRITEBYTECODE=1 OMP_NUM_THREADS=1 OPENBLAS_NUM_THREADS=1 MKL_NUM_THREADS=1 HDF5_USE_FILE_LOCKING=FALSE
for c in C01 C02 C03 C04 C05 C06 C07 C08 C09 C10 C11 C12 C13 C14 C15 C16 C17 C18 C19; do
  /venv/bin/python -W ignore -m coverage run --rcfile=/tmp/cov/rc -m mc.cli $c --tier $tier 2>&1 | grep -E "tier=|VIOLATION|HARNESS" | cut -c1-160
done
cd /tmp/cov && /venv/bin/python -m coverage combine --rcfile=/tmp/cov/rc -q >/dev/null 2>&1
/venv/bin/python -m coverage report --rcfile=/tmp/cov/rc -m 2>&1 | grep -v conda
rm -rf /tmp/cov
