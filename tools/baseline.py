"""Run the pinned test command in a repo dir and compare with BASELINE.json's stable_pass list."""
import json, subprocess, sys, os, tempfile
import xml.etree.ElementTree as ET
repo = sys.argv[1] if len(sys.argv) > 1 else "/repo"
base = json.load(open("/root/.vp/BASELINE.json"))
fd, xml = tempfile.mkstemp(suffix=".xml", dir=os.environ.get("VERIF_SCRATCH", "/verif/.cache")); os.close(fd)
env = dict(os.environ); env.pop("THEJOKER_VERIF", None)
subprocess.run(["/venv/bin/python", "-m", "pytest", "-ra", "-q", "-p", "no:cacheprovider", "--timeout=900",
                "--continue-on-collection-errors", "--junitxml=" + xml], cwd=repo, capture_output=True, env=env)
passed = set()
for tc in ET.parse(xml).getroot().iter("testcase"):
    if not any(ch.tag in ("failure", "error", "skipped") for ch in tc):
        passed.add(tc.get("classname") + "::" + tc.get("name"))
os.unlink(xml)
missing = [t for t in base["stable_pass"] if t not in passed]
print("passed:", len(passed), "stable missing:", missing)
sys.exit(1 if missing else 0)
