#!/usr/bin/env python3
"""tools/seedindex.py: writes seeded/INDEX.md - one line per seeded change: property, what it is, which checks caught it."""
import glob
import json
import os
import re

root = os.path.join(os.path.dirname(os.path.dirname(os.path.abspath(__file__))), "seeded")
rows = []
for d in sorted(glob.glob(os.path.join(root, "C*-s*")), key=lambda p: (p.split("/")[-1][:3], int(p.split("-s")[1]))):
    m = json.load(open(os.path.join(d, "meta.json")))
    title = ""
    rd = os.path.join(d, "README.md")
    if os.path.exists(rd):
        title = open(rd).read().strip().split("\n")[0].lstrip("# ").strip()
        title = re.sub(r"^(C\d\d |Seed[ /]*)?(seed )?\w*\s*[-—:(]*\s*", "", title, count=1) if len(title) > 140 else title
    caught = [x.split(":")[0] for x in m.get("checks_run_quick", []) if ":caught" in x]
    missed = [x.split(":")[0] for x in m.get("checks_run_quick", []) if x.endswith(":missed")]
    rows.append((m["seed"], m["breaks_property"], ", ".join(caught) or "-", ", ".join(missed), title[:150].replace("|", "/")))
with open(os.path.join(root, "INDEX.md"), "w") as f:
    f.write("# Seeded changes (written by independent sub-agents; every one verified: demo fails with the patch, passes without, 50 stable tests pass)\n\n")
    f.write("Each directory holds `patch.diff`, `demo.py`, `README.md`, `meta.json`. `caught by` = registered checks (quick tier) that print a VIOLATION with the patch applied to /repo.\n\n")
    f.write("| seed | property | caught by | silent (by design, see DESIGN.md §10) | change |\n|---|---|---|---|---|\n")
    for r in rows:
        f.write("| %s | %s | %s | %s | %s |\n" % r)
    f.write("\n%d seeds.\n" % len(rows))
print(len(rows), "seeds indexed")
