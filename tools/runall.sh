#!/bin/bash
# tools/runall.sh [tier] [seed]: run every registered check, print one summary line each
tier=${1:-quick}; seed=${2:-0}
cd /verif
for c in C01 C02 C03 C04 C05 C06 C07 C08 C09 C10 C11 C12 C13 C14 C15 C16 C17 C18 C19; do
  s=$(date +%s)
  out=$(VERIF_SEED=$seed ./check $c --tier $tier 2>&1); rc=$?
  e=$(( $(date +%s) - s ))
  echo "$c rc=$rc ${e}s viol=$(echo "$out" | grep -c '^VIOLATION') known=$(echo "$out" | grep -c '^KNOWN-FINDING') harness=$(echo "$out" | grep -c 'HARNESS')"
done
