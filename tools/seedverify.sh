#!/bin/bash
# tools/seedverify.sh <worktree> <k> <seed-id> <prop> [checks...]
# 1. in the scratch worktree: demo passes clean, fails with patch; 50 stable tests pass with patch
# 2. in /repo: apply patch, run the given checks (quick), revert
# 3. store under /verif/seeded/<seed-id>/
wt=$1; k=$2; sid=$3; prop=$4; shift 4
sd=$wt/seed/$k
out=/verif/seeded/$sid
mkdir -p $out
if [ -f $sd/pre.txt ]; then
  # phase A already done by tools/seedpre.sh
  clean_rc=$(sed -n 1p $sd/pre.txt); patched_rc=$(sed -n 2p $sd/pre.txt); base=$(sed -n 3p $sd/pre.txt)
  cp $sd/demo_with_patch.log $out/demo_with_patch.log
else
cd $wt && git checkout -q -- . 
/venv/bin/python $sd/demo.py >/dev/null 2>&1; clean_rc=$?
git apply $sd/patch.diff || { echo "PATCH DOES NOT APPLY in worktree"; exit 1; }
/venv/bin/python $sd/demo.py >$out/demo_with_patch.log 2>&1; patched_rc=$?
base=$(/venv/bin/python /tmp/wt/check_baseline.py $wt 2>&1 | tail -1)
git checkout -q -- .
fi
echo "demo clean rc=$clean_rc patched rc=$patched_rc baseline: $base"
cp $sd/patch.diff $sd/demo.py $out/ ; cp $sd/README.md $out/README.md 2>/dev/null
results=""
cd /repo && git reset -q --hard HEAD && { git apply $sd/patch.diff 2>/dev/null || patch -p1 -s --no-backup-if-mismatch < $sd/patch.diff || { echo "PATCH DOES NOT APPLY in /repo"; git reset -q --hard HEAD; }; }
git -C /repo diff --stat | tail -1
for c in "$@"; do
  r=$(cd /verif && ./check $c --tier quick 2>&1 | grep -E "VIOLATION|HARNESS|tier=" | head -3)
  echo "--- $c: $r"
  if echo "$r" | grep -q VIOLATION; then results="$results $c:caught"; else results="$results $c:missed"; fi
done
cd /repo && git reset -q --hard HEAD && git clean -fdq -e '*.so' -e '*.c' thejoker >/dev/null; git status --short | head -3
tail -3 $out/demo_with_patch.log > $out/demo_tail.txt
/venv/bin/python - "$out" "$sid" "$prop" "$clean_rc" "$patched_rc" "$base" "$results" <<'PY'
import json,sys
out,sid,prop,c,p,base,res=sys.argv[1:8]
meta={"seed":sid,"breaks_property":prop,"demo_rc_clean":int(c),"demo_rc_patched":int(p),"baseline_with_patch":base,
      "checks_run_quick":res.split(),"needs":open(out+"/README.md").read() if __import__("os").path.exists(out+"/README.md") else ""}
json.dump(meta,open(out+"/meta.json","w"),indent=1)
PY
rm -f $out/demo_with_patch.log
